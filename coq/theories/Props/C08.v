(* C08 - Indicators inside a Hexital behave exactly like the same indicators standalone. *)
From Coq Require Import ZArith List String Bool.
From Hexital Require Import Base.Prelude Base.Num Inst.ZInst Model.Manager Model.Candle Model.Readings Model.Engine
  Model.Hexital Model.Analysis Proofs.FrameProofs Proofs.HexitalProofs Proofs.AnalysisProofs Proofs.CausalProofs
  Proofs.SimProofs Proofs.NonInterference Proofs.DeliverProofs Proofs.ParamProofs Proofs.HxSimProofs Proofs.SeedProofs Proofs.NonInterferenceTF Proofs.HxTwin.
Import ListNotations.

(* A member that has a timeframe (manager) of its own: appending to the Hexital is exactly
   appending to the standalone indicator with the same manager configuration, including
   the exception raised if any. *)
Theorem C08_member_on_its_own_manager_is_standalone :
  forall (O : NumOps) (cfg : mcfg) (I : ind O) (key : string) (st : store O) (new : list (cd (payload O))),
  let h := {| h_mgrs := [(key, (cfg, st))]; h_members := [{| m_ind := I; m_mgr := key |}] |} in
  match alone_append O cfg I st new with
  | Ok st' => hx_append O h new = Ok {| h_mgrs := [(key, (cfg, st'))]; h_members := h_members O h |}
  | Err e => hx_append O h new = Err e
  end.
Proof. exact single_member_is_standalone. Qed.
Print Assumptions C08_member_on_its_own_manager_is_standalone.

(* Members that share a manager: whatever one member computes, the candles keep their
   OHLCV and timestamps (the base candles are not altered by indicators) and the other
   members' entries are untouched. *)
Theorem C08_members_do_not_alter_shared_candles :
  forall (O : NumOps) (k : kind O) (name : string) (rnd : Z) (st st' : store O),
  calculate O (top O k name rnd) st = Ok st' -> frame O (tree_names O FUEL (top O k name rnd)) st st'.
Proof. exact calculate_frame. Qed.
Print Assumptions C08_members_do_not_alter_shared_candles.

(* Members that share a manager, read half: a member B without helper series behaves like the
   standalone B.  Side 1 of a paired history is the shared manager's candle list (the other
   members calculate, purge, recompute on it - anything within the frame of their own trees),
   side 2 the list of a standalone B fed the same candles; B's entry on every candle is the same
   on both sides and calculate() raises on one side exactly when it raises on the other
   (C13_leaf_noninterference, restated for the container). *)
Theorem C08_leaf_member_equals_standalone :
  forall (O : NumOps) (B : ind O) (others : list (bool * string)),
  i_subs O B = [] /\ i_managed O B = [] -> i_sub O B = false -> leaf_kind O (i_kind O B) = true ->
  has_dot (i_name O B) = false -> foreign O B others ->
  forall shared alone : store O, Paired O B others shared alone ->
  map (fun c => alist_get (i_name O B) (inds O (p c))) shared = map (fun c => alist_get (i_name O B) (inds O (p c))) alone /\
  (forall e, calculate O B shared = Err e <-> calculate O B alone = Err e).
Proof. intros O B others Hl Ht Hk Hn Hf s1 s2 HP. eapply noninterference; eassumption. Qed.
Print Assumptions C08_leaf_member_equals_standalone.

(* Candle management never looks at readings: two candle lists that agree on timestamps,
   values, clean values and tags are collapsed, filled, converted and trimmed to lists that
   agree again, and raise alike - so the candles of a member's timeframe cannot depend on what
   any indicator wrote on them. *)
Theorem C08_candle_management_ignores_readings :
  forall (O : NumOps) (cfg : mcfg) (st st' new : list (cd (payload O))),
  RL (payload O) (same_data O) st st' ->
  RR (payload O) (same_data O) (mgr_append O cfg st new) (mgr_append O cfg st' new).
Proof. exact mgr_append_same. Qed.
Print Assumptions C08_candle_management_ignores_readings.

(* The timeframes of a Hexital evolve independently of its indicators: along any program of
   append / calculate / purge / recalculate / calculate_index / remove_indicator /
   add_indicator, the Hexital's managers and a bare dictionary of candle managers given the
   same appends (creating a timeframe when the Hexital does) agree manager by manager. *)
Theorem C08_timeframes_evolve_independently_of_indicators :
  forall (O : NumOps) (hcfg : mcfg) (ops : list (hop O)) (h h' : hexital O) (M : list (string * (mcfg * store O))),
  members_wf O h -> Forall (op_wf O) ops -> mgrs_rel O (RL (payload O) (same_data O)) (h_mgrs O h) M ->
  foldM (hx_step O hcfg) ops h = Ok h' ->
  exists M', foldM (m_step O hcfg) ops M = Ok M' /\ mgrs_rel O (RL (payload O) (same_data O)) (h_mgrs O h') M'.
Proof. exact hx_program_sim. Qed.
Print Assumptions C08_timeframes_evolve_independently_of_indicators.

(* "Any way of supplying the base candles": in a Hexital without a timeframe and lifespan of
   its own (Heikin-Ashi and the fill flag are free), built over raw candles with any members and
   driven by any program whose appends bring raw candles, every member timeframe holds - up to
   readings - the candles of a standalone CandleManager with the member's effective settings,
   built over the stream as it was when the timeframe appeared (at construction or at a later
   add_indicator) and given every later chunk. *)
Theorem C08_member_timeframes_are_standalone_managers :
  forall (O : NumOps) (hcfg : mcfg) (init : list (cd (payload O))) (members : list (ind O * option (string * Z)))
         (ops : list (hop O)) (h0 h' : hexital O),
  plain hcfg -> Forall (raw_cd O) init -> Forall (fun m => wf_tree O FUEL (fst m)) members ->
  Forall (op_wf O) ops -> Forall (op_raw O) ops ->
  hx_new O hcfg init members = Ok h0 -> foldM (hx_step O hcfg) ops h0 = Ok h' ->
  Forall (fun kv : string * (mcfg * store O) =>
            fst kv = "default"%string \/
            (is_own (fst (snd kv)) hcfg /\
             exists xs chunks st, (init ++ appended O ops)%list = (xs ++ List.concat chunks)%list /\
                                  mgr_run O (fst (snd kv)) xs chunks = Ok st /\
                                  RL (payload O) (same_data O) (snd (snd kv)) st))
         (h_mgrs O h').
Proof. exact hexital_timeframes_are_standalone_managers. Qed.
Print Assumptions C08_member_timeframes_are_standalone_managers.

(* the hypotheses are met: e.g. a Heikin-Ashi Hexital with the fill flag, a fresh candle, a
   shipped indicator added later, an append of a fresh candle *)
Example C08_hypotheses_are_met :
  forall (O : NumOps) (x : ohlcv O) (k : kind O) (name : string) (rnd : Z) own,
  plain {| tf := None; fillon := true; ha := true; lifespan := None |} /\
  raw_cd O {| t := 60; p := raw_payload O x |} /\
  op_wf O (HAdd O (top O k name rnd) own) /\
  op_raw O (HAppend O [{| t := 120; p := raw_payload O x |}]).
Proof.
  intros. split; [split; reflexivity|]. split; [reflexivity|]. split; [cbn [op_wf]; apply wf_top|].
  constructor; [reflexivity|constructor].
Qed.

(* Members that share a collapsing / filled / converted / trimmed manager: a member B without
   helper series has, candle by candle, the timestamps, values and entries of its standalone
   twin fed the same chunks, and raises alike (C13_leaf_noninterference_on_any_manager restated
   for the container). *)
Theorem C08_leaf_member_on_shared_timeframe_equals_standalone :
  forall (O : NumOps) (B : ind O) (others : list (bool * string)),
  i_subs O B = [] /\ i_managed O B = [] -> i_sub O B = false -> leaf_kind O (i_kind O B) = true ->
  has_dot (i_name O B) = false -> foreign O B others ->
  forall shared alone : store O, PairedM O B others shared alone ->
  map (fun c => (t c, cur O (p c), alist_get (i_name O B) (inds O (p c)))) shared =
  map (fun c => (t c, cur O (p c), alist_get (i_name O B) (inds O (p c)))) alone /\
  (forall e, calculate O B shared = Err e <-> calculate O B alone = Err e) /\
  (forall cfg new, match mgr_append O cfg shared new, mgr_append O cfg alone new with
                   | Ok _, Ok _ => True | Err e1, Err e2 => e1 = e2 | _, _ => False end).
Proof. intros O B others Hl Ht Hk Hn Hf s1 s2 HP. eapply noninterference_on_any_manager; eassumption. Qed.
Print Assumptions C08_leaf_member_on_shared_timeframe_equals_standalone.

(* End to end, for a member B without helper series.  The Hexital holds B on the manager [key]
   (settings [cfg]) among any other members (pre, post: other names, well-formed trees whose
   entries B neither reads nor owns); its twin is a standalone B on a manager with the same
   settings; at the start the two hold related candles (Inv; e.g. both were just built over the
   same candles: paired_start).  Then along any program - append; calculate() of anything;
   purge / recalculate / calculate_index / remove_indicator aimed at other members;
   add_indicator of further members on any timeframe - the twin, given the same candles and the
   calculate() calls that reach B, never raises where the Hexital does not, and at the end B's
   manager holds, candle by candle, the twin's timestamps, values and readings. *)
Theorem C08_leaf_member_of_a_hexital_equals_its_twin :
  forall (O : NumOps) (B : ind O) (others : list (bool * string)) (key : string) (cfg hcfg : mcfg),
  i_subs O B = [] /\ i_managed O B = [] -> i_sub O B = false -> leaf_kind O (i_kind O B) = true ->
  has_dot (i_name O B) = false -> foreign O B others ->
  forall (ops : list (hop O)) (h h' : hexital O) (twin : store O),
  Inv O B others key cfg h twin -> Forall (op_allowed O B others key) ops ->
  foldM (hx_step O hcfg) ops h = Ok h' ->
  exists s1' twin', alist_get key (h_mgrs O h') = Some (cfg, s1') /\
    foldM (twin_step O B cfg) ops twin = Ok twin' /\
    map (fun c => (t c, cur O (p c), alist_get (i_name O B) (inds O (p c)))) s1' =
    map (fun c => (t c, cur O (p c), alist_get (i_name O B) (inds O (p c)))) twin'.
Proof. intros O B others key cfg hcfg Hl Ht Hk Hn Hf ops h h' twin HI Hops H. eapply member_equals_twin; eassumption. Qed.
Print Assumptions C08_leaf_member_of_a_hexital_equals_its_twin.

(* the starting point exists: B's manager and the twin's, both just built over the same candles *)
Theorem C08_twin_starting_point :
  forall (O : NumOps) (B : ind O) (others : list (bool * string)) (cfg : mcfg) (xs : list (cd (payload O))) (s : store O),
  mgr_append O cfg [] xs = Ok s -> PairedM O B others s s.
Proof. intros O B others cfg xs s H. eapply paired_start; exact H. Qed.
Print Assumptions C08_twin_starting_point.

(* ... and registration establishes it: when B is attached to a Hexital whose members so far are
   all "other" members - at construction or by add_indicator, on the default manager, on an
   existing timeframe or on one created for it - the invariant holds with the twin starting from
   the candles B's manager holds at that moment (for a Hexital without timeframe and lifespan
   that is the collapse of the whole raw stream so far: C08_member_timeframes_are_standalone_managers) *)
Theorem C08_registering_a_member_starts_the_twin :
  forall (O : NumOps) (B : ind O) (others : list (bool * string)) (hcfg : mcfg) (h h' : hexital O) (own : option (string * Z)),
  Forall (other_ok O B others) (h_members O h) ->
  (own = None -> exists c s, alist_get "default"%string (h_mgrs O h) = Some (c, s)) ->
  hx_attach O hcfg h B own = Ok h' ->
  exists key cfg s, alist_get key (h_mgrs O h') = Some (cfg, s) /\ Inv O B others key cfg h' s.
Proof. intros O B others hcfg h h' own Hm Hd H. eapply inv_after_attach; eassumption. Qed.
Print Assumptions C08_registering_a_member_starts_the_twin.

(* the invariant and the allowed operations are inhabited: an SMA(2) next to an SMA(3) on a
   five-minute timeframe with gap filling, built over four raw candles with a hole *)
Local Open Scope string_scope.
Local Open Scope Z_scope.
Definition c08w_B : ind ZOps := top ZOps (K_SMA 2 "close") "SMA_2" 4.
Definition c08w_A : ind ZOps := top ZOps (K_SMA 3 "high") "SMA_3" 4.
Definition c08w_others : list (bool * string) := [(false, "SMA_3")].
Definition c08w_cfg : mcfg := {| tf := Some 300; fillon := true; ha := false; lifespan := None |}.
Definition c08w_c (ts c : Z) : cd (payload ZOps) := {| t := ts; p := raw_payload ZOps (Build_ohlcv ZOps c c c c 1) |}.
Definition c08w_xs := [c08w_c 60 10; c08w_c 120 11; c08w_c 400 12; c08w_c 1300 14].
Definition c08w_s : store ZOps := Eval vm_compute in (match mgr_append ZOps c08w_cfg [] c08w_xs with Ok r => r | Err _ => [] end).
Definition c08w_h : hexital ZOps :=
  {| h_mgrs := [("default", ({| tf := None; fillon := true; ha := false; lifespan := None |}, c08w_xs)); ("T5", (c08w_cfg, c08w_s))];
     h_members := [{| m_ind := c08w_A; m_mgr := "T5" |}; {| m_ind := c08w_B; m_mgr := "T5" |}] |}.
Lemma c08w_e : mgr_append ZOps c08w_cfg [] c08w_xs = Ok c08w_s. Proof. vm_cast_no_check (@eq_refl (res (store ZOps)) (Ok c08w_s)). Qed.
Example C08_twin_example_foreign : foreign ZOps c08w_B c08w_others.
Proof.
  unfold foreign. intros n sub Hn Hin. destruct Hin as [Hin|[]]. inversion Hin as [[Hs Hr]]. clear Hin.
  vm_compute in Hn. destruct Hn as [Hn|[Hn|[Hn|[]]]]; subst n; vm_compute in Hr; discriminate Hr.
Qed.
Example C08_twin_example_invariant : Inv ZOps c08w_B c08w_others "T5" c08w_cfg c08w_h c08w_s /\
  op_allowed ZOps c08w_B c08w_others "T5" (HAppend ZOps [c08w_c 1400 15]) /\ op_allowed ZOps c08w_B c08w_others "T5" (HRemove ZOps "SMA_3") /\
  op_allowed ZOps c08w_B c08w_others "T5" (HAdd ZOps c08w_A (Some ("T10", 600))).
Proof.
  split; [split|].
  - exists [{| m_ind := c08w_A; m_mgr := "T5" |}], []. split; [reflexivity|]. split; [|constructor].
    constructor; [|constructor]. split; [vm_compute; discriminate|]. split; [apply wf_top|]. vm_compute. intros x Hx. exact Hx.
  - exists c08w_s. split; [reflexivity|]. eapply paired_start. exact c08w_e.
  - split; [exact Logic.I|]. split; [reflexivity|]. split; [vm_compute; discriminate|]. split; [apply wf_top|]. vm_compute. intros x Hx. exact Hx.
Qed.
