(* C08 - Indicators inside a Hexital behave exactly like the same indicators standalone. *)
From Coq Require Import ZArith List String Bool.
From Hexital Require Import Base.Prelude Base.Num Model.Manager Model.Candle Model.Readings Model.Engine
  Model.Hexital Model.Analysis Proofs.FrameProofs Proofs.HexitalProofs Proofs.AnalysisProofs Proofs.CausalProofs
  Proofs.SimProofs Proofs.NonInterference Proofs.DeliverProofs Proofs.ParamProofs Proofs.HxSimProofs Proofs.SeedProofs Proofs.NonInterferenceTF.
Import ListNotations.

(* A member that has a timeframe (manager) of its own: appending to the Hexital is exactly
   appending to the standalone indicator with the same manager configuration, including
   the exception raised if any. *)
Theorem C08_member_on_its_own_manager_is_standalone :
  forall (O : NumOps) (cfg : mcfg) (I : ind O) (key : string) (st : store O) (new : list (cd (payload O))),
  let h := {| h_mgrs := [(key, (cfg, st))]; h_members := [{| m_ind := I; m_mgr := key |}] |} in
  match alone_append O cfg I st new with
  | Ok st' => hx_append O h new = Ok {| h_mgrs := [(key, (cfg, st'))]; h_members := h_members O h |}
  | Err e => hx_append O h new = Err e
  end.
Proof. exact single_member_is_standalone. Qed.
Print Assumptions C08_member_on_its_own_manager_is_standalone.

(* Members that share a manager: whatever one member computes, the candles keep their
   OHLCV and timestamps (the base candles are not altered by indicators) and the other
   members' entries are untouched. *)
Theorem C08_members_do_not_alter_shared_candles :
  forall (O : NumOps) (k : kind O) (name : string) (rnd : Z) (st st' : store O),
  calculate O (top O k name rnd) st = Ok st' -> frame O (tree_names O FUEL (top O k name rnd)) st st'.
Proof. exact calculate_frame. Qed.
Print Assumptions C08_members_do_not_alter_shared_candles.

(* Members that share a manager, read half: a member B without helper series behaves like the
   standalone B.  Side 1 of a paired history is the shared manager's candle list (the other
   members calculate, purge, recompute on it - anything within the frame of their own trees),
   side 2 the list of a standalone B fed the same candles; B's entry on every candle is the same
   on both sides and calculate() raises on one side exactly when it raises on the other
   (C13_leaf_noninterference, restated for the container). *)
Theorem C08_leaf_member_equals_standalone :
  forall (O : NumOps) (B : ind O) (others : list (bool * string)),
  i_subs O B = [] /\ i_managed O B = [] -> i_sub O B = false -> leaf_kind O (i_kind O B) = true ->
  has_dot (i_name O B) = false -> foreign O B others ->
  forall shared alone : store O, Paired O B others shared alone ->
  map (fun c => alist_get (i_name O B) (inds O (p c))) shared = map (fun c => alist_get (i_name O B) (inds O (p c))) alone /\
  (forall e, calculate O B shared = Err e <-> calculate O B alone = Err e).
Proof. intros O B others Hl Ht Hk Hn Hf s1 s2 HP. eapply noninterference; eassumption. Qed.
Print Assumptions C08_leaf_member_equals_standalone.

(* Candle management never looks at readings: two candle lists that agree on timestamps,
   values, clean values and tags are collapsed, filled, converted and trimmed to lists that
   agree again, and raise alike - so the candles of a member's timeframe cannot depend on what
   any indicator wrote on them. *)
Theorem C08_candle_management_ignores_readings :
  forall (O : NumOps) (cfg : mcfg) (st st' new : list (cd (payload O))),
  RL (payload O) (same_data O) st st' ->
  RR (payload O) (same_data O) (mgr_append O cfg st new) (mgr_append O cfg st' new).
Proof. exact mgr_append_same. Qed.
Print Assumptions C08_candle_management_ignores_readings.

(* The timeframes of a Hexital evolve independently of its indicators: along any program of
   append / calculate / purge / recalculate / calculate_index / remove_indicator /
   add_indicator, the Hexital's managers and a bare dictionary of candle managers given the
   same appends (creating a timeframe when the Hexital does) agree manager by manager. *)
Theorem C08_timeframes_evolve_independently_of_indicators :
  forall (O : NumOps) (hcfg : mcfg) (ops : list (hop O)) (h h' : hexital O) (M : list (string * (mcfg * store O))),
  members_wf O h -> Forall (op_wf O) ops -> mgrs_rel O (RL (payload O) (same_data O)) (h_mgrs O h) M ->
  foldM (hx_step O hcfg) ops h = Ok h' ->
  exists M', foldM (m_step O hcfg) ops M = Ok M' /\ mgrs_rel O (RL (payload O) (same_data O)) (h_mgrs O h') M'.
Proof. exact hx_program_sim. Qed.
Print Assumptions C08_timeframes_evolve_independently_of_indicators.

(* "Any way of supplying the base candles": in a Hexital without a timeframe and lifespan of
   its own (Heikin-Ashi and the fill flag are free), built over raw candles with any members and
   driven by any program whose appends bring raw candles, every member timeframe holds - up to
   readings - the candles of a standalone CandleManager with the member's effective settings,
   built over the stream as it was when the timeframe appeared (at construction or at a later
   add_indicator) and given every later chunk. *)
Theorem C08_member_timeframes_are_standalone_managers :
  forall (O : NumOps) (hcfg : mcfg) (init : list (cd (payload O))) (members : list (ind O * option (string * Z)))
         (ops : list (hop O)) (h0 h' : hexital O),
  plain hcfg -> Forall (raw_cd O) init -> Forall (fun m => wf_tree O FUEL (fst m)) members ->
  Forall (op_wf O) ops -> Forall (op_raw O) ops ->
  hx_new O hcfg init members = Ok h0 -> foldM (hx_step O hcfg) ops h0 = Ok h' ->
  Forall (fun kv : string * (mcfg * store O) =>
            fst kv = "default"%string \/
            (is_own (fst (snd kv)) hcfg /\
             exists xs chunks st, (init ++ appended O ops)%list = (xs ++ List.concat chunks)%list /\
                                  mgr_run O (fst (snd kv)) xs chunks = Ok st /\
                                  RL (payload O) (same_data O) (snd (snd kv)) st))
         (h_mgrs O h').
Proof. exact hexital_timeframes_are_standalone_managers. Qed.
Print Assumptions C08_member_timeframes_are_standalone_managers.

(* the hypotheses are met: e.g. a Heikin-Ashi Hexital with the fill flag, a fresh candle, a
   shipped indicator added later, an append of a fresh candle *)
Example C08_hypotheses_are_met :
  forall (O : NumOps) (x : ohlcv O) (k : kind O) (name : string) (rnd : Z) own,
  plain {| tf := None; fillon := true; ha := true; lifespan := None |} /\
  raw_cd O {| t := 60; p := raw_payload O x |} /\
  op_wf O (HAdd O (top O k name rnd) own) /\
  op_raw O (HAppend O [{| t := 120; p := raw_payload O x |}]).
Proof.
  intros. split; [split; reflexivity|]. split; [reflexivity|]. split; [cbn [op_wf]; apply wf_top|].
  constructor; [reflexivity|constructor].
Qed.

(* Members that share a collapsing / filled / converted / trimmed manager: a member B without
   helper series has, candle by candle, the timestamps, values and entries of its standalone
   twin fed the same chunks, and raises alike (C13_leaf_noninterference_on_any_manager restated
   for the container). *)
Theorem C08_leaf_member_on_shared_timeframe_equals_standalone :
  forall (O : NumOps) (B : ind O) (others : list (bool * string)),
  i_subs O B = [] /\ i_managed O B = [] -> i_sub O B = false -> leaf_kind O (i_kind O B) = true ->
  has_dot (i_name O B) = false -> foreign O B others ->
  forall shared alone : store O, PairedM O B others shared alone ->
  map (fun c => (t c, cur O (p c), alist_get (i_name O B) (inds O (p c)))) shared =
  map (fun c => (t c, cur O (p c), alist_get (i_name O B) (inds O (p c)))) alone /\
  (forall e, calculate O B shared = Err e <-> calculate O B alone = Err e) /\
  (forall cfg new, match mgr_append O cfg shared new, mgr_append O cfg alone new with
                   | Ok _, Ok _ => True | Err e1, Err e2 => e1 = e2 | _, _ => False end).
Proof. intros O B others Hl Ht Hk Hn Hf s1 s2 HP. eapply noninterference_on_any_manager; eassumption. Qed.
Print Assumptions C08_leaf_member_on_shared_timeframe_equals_standalone.
