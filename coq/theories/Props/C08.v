(* C08 - Indicators inside a Hexital behave exactly like the same indicators standalone. *)
From Coq Require Import ZArith List String Bool.
From Hexital Require Import Base.Prelude Base.Num Model.Manager Model.Candle Model.Readings Model.Engine
  Model.Hexital Model.Analysis Proofs.FrameProofs Proofs.HexitalProofs Proofs.AnalysisProofs Proofs.CausalProofs
  Proofs.SimProofs Proofs.NonInterference.
Import ListNotations.

(* A member that has a timeframe (manager) of its own: appending to the Hexital is exactly
   appending to the standalone indicator with the same manager configuration, including
   the exception raised if any. *)
Theorem C08_member_on_its_own_manager_is_standalone :
  forall (O : NumOps) (cfg : mcfg) (I : ind O) (key : string) (st : store O) (new : list (cd (payload O))),
  let h := {| h_mgrs := [(key, (cfg, st))]; h_members := [{| m_ind := I; m_mgr := key |}] |} in
  match alone_append O cfg I st new with
  | Ok st' => hx_append O h new = Ok {| h_mgrs := [(key, (cfg, st'))]; h_members := h_members O h |}
  | Err e => hx_append O h new = Err e
  end.
Proof. exact single_member_is_standalone. Qed.
Print Assumptions C08_member_on_its_own_manager_is_standalone.

(* Members that share a manager: whatever one member computes, the candles keep their
   OHLCV and timestamps (the base candles are not altered by indicators) and the other
   members' entries are untouched. *)
Theorem C08_members_do_not_alter_shared_candles :
  forall (O : NumOps) (k : kind O) (name : string) (rnd : Z) (st st' : store O),
  calculate O (top O k name rnd) st = Ok st' -> frame O (tree_names O FUEL (top O k name rnd)) st st'.
Proof. exact calculate_frame. Qed.
Print Assumptions C08_members_do_not_alter_shared_candles.

(* Members that share a manager, read half: a member B without helper series behaves like the
   standalone B.  Side 1 of a paired history is the shared manager's candle list (the other
   members calculate, purge, recompute on it - anything within the frame of their own trees),
   side 2 the list of a standalone B fed the same candles; B's entry on every candle is the same
   on both sides and calculate() raises on one side exactly when it raises on the other
   (C13_leaf_noninterference, restated for the container). *)
Theorem C08_leaf_member_equals_standalone :
  forall (O : NumOps) (B : ind O) (others : list (bool * string)),
  i_subs O B = [] /\ i_managed O B = [] -> i_sub O B = false -> leaf_kind O (i_kind O B) = true ->
  has_dot (i_name O B) = false -> foreign O B others ->
  forall shared alone : store O, Paired O B others shared alone ->
  map (fun c => alist_get (i_name O B) (inds O (p c))) shared = map (fun c => alist_get (i_name O B) (inds O (p c))) alone /\
  (forall e, calculate O B shared = Err e <-> calculate O B alone = Err e).
Proof. intros O B others Hl Ht Hk Hn Hf s1 s2 HP. eapply noninterference; eassumption. Qed.
Print Assumptions C08_leaf_member_equals_standalone.
