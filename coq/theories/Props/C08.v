(* C08 - Indicators inside a Hexital behave exactly like the same indicators standalone. *)
From Coq Require Import ZArith List String Bool.
From Hexital Require Import Base.Prelude Base.Num Model.Manager Model.Candle Model.Readings Model.Engine
  Model.Hexital Proofs.FrameProofs Proofs.HexitalProofs.
Import ListNotations.

(* A member that has a timeframe (manager) of its own: appending to the Hexital is exactly
   appending to the standalone indicator with the same manager configuration, including
   the exception raised if any. *)
Theorem C08_member_on_its_own_manager_is_standalone :
  forall (O : NumOps) (cfg : mcfg) (I : ind O) (key : string) (st : store O) (new : list (cd (payload O))),
  let h := {| h_mgrs := [(key, (cfg, st))]; h_members := [{| m_ind := I; m_mgr := key |}] |} in
  match alone_append O cfg I st new with
  | Ok st' => hx_append O h new = Ok {| h_mgrs := [(key, (cfg, st'))]; h_members := h_members O h |}
  | Err e => hx_append O h new = Err e
  end.
Proof. exact single_member_is_standalone. Qed.
Print Assumptions C08_member_on_its_own_manager_is_standalone.

(* Members that share a manager: whatever one member computes, the candles keep their
   OHLCV and timestamps (the base candles are not altered by indicators) and the other
   members' entries are untouched. *)
Theorem C08_members_do_not_alter_shared_candles :
  forall (O : NumOps) (k : kind O) (name : string) (rnd : Z) (st st' : store O),
  calculate O (top O k name rnd) st = Ok st' -> frame O (tree_names O FUEL (top O k name rnd)) st st'.
Proof. exact calculate_frame. Qed.
Print Assumptions C08_members_do_not_alter_shared_candles.
