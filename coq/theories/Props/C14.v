(* C14 - Maintenance operations are idempotent and always converge to the batch state.
   Proved here: purge removes every entry the indicator tree wrote - helper series at any
   depth included - and nothing else.  Idempotence of calculate and convergence to the
   batch state are proved for leaf indicators in Proofs/EngineProofs.v and restated below
   once available; for composite indicators they are decided by correspondence + falsifier. *)
From Coq Require Import ZArith List String Bool.
From Hexital Require Import Base.Prelude Base.Num Model.Manager Model.Candle Model.Readings Model.Engine
  Proofs.AccessProofs Proofs.EngineProofs.
Import ListNotations.

Theorem C14_purge_exact :
  forall (O : NumOps) (I : ind O) (st : store O),
  let st' := purge O I st in
  List.length st' = List.length st /\
  forall k c c', nth_error st k = Some c -> nth_error st' k = Some c' ->
    t c' = t c /\ cur O (p c') = cur O (p c) /\ clean O (p c') = clean O (p c) /\ tagged O (p c') = tagged O (p c) /\
    (forall sub nm, In (sub, nm) (tree_names O FUEL I) -> lookup_own O sub (p c') nm = None) /\
    (forall sub nm, ~ In (sub, nm) (tree_names O FUEL I) -> lookup_own O sub (p c') nm = lookup_own O sub (p c) nm).
Proof. exact purge_exact. Qed.
Print Assumptions C14_purge_exact.

(* calling calculate() again changes nothing (leaf indicators that are pure and causal:
   HLA, TR, OBV, EMA have the obligations discharged in Props/C01.v) *)
Theorem C14_calculate_idempotent_leaf :
  forall (O : NumOps) (I : ind O) (calc : store O -> Z -> res (val O)),
  i_subs O I = [] /\ i_managed O I = [] ->
  (forall rec st i, calc_reading O rec I st i = (v <- calc st i ;; Ok (v, st))) ->
  Causal O I calc ->
  forall (ds : list (cd (payload O))) st, Forall (fresh O I) ds ->
  calculate O I ds = Ok st -> calculate O I st = Ok st.
Proof. intros O I calc Hl Hp Hc ds st Hf H. eapply engine_calculate_idempotent; eassumption. Qed.
Print Assumptions C14_calculate_idempotent_leaf.
