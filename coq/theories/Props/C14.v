(* C14 - Maintenance operations are idempotent and always converge to the batch state.
   Proved here: purge removes every entry the indicator tree wrote - helper series at any
   depth included - and nothing else; for leaf indicators that are pure and causal (the
   obligations are discharged in Props/C01.v for HLA, TR, OBV, EMA, SMA, RMA, WMA, VWMA,
   ROC, Counter, HL, Donchian, AROON and the Amorph wrappers): calculate() again changes nothing, recalculate()
   reproduces exactly the store it replaced, and recomputing an index that already holds a
   reading - by its positive or its negative index - leaves the store as it was.  For
   composite indicators and whole operation programs: correspondence + falsifier. *)
From Coq Require Import ZArith List String Bool.
From Hexital Require Import Base.Prelude Base.Num Model.Manager Model.Candle Model.Readings Model.Engine
  Proofs.AccessProofs Proofs.EngineProofs Proofs.MaintProofs Proofs.CompositeProofs Proofs.AtrCompose Proofs.CausalProofs Proofs.DataSlot Proofs.DataInst Proofs.DataThms Proofs.CompositeData Proofs.ThresCompose.
Import ListNotations.

Theorem C14_purge_exact :
  forall (O : NumOps) (I : ind O) (st : store O),
  let st' := purge O I st in
  List.length st' = List.length st /\
  forall k c c', nth_error st k = Some c -> nth_error st' k = Some c' ->
    t c' = t c /\ cur O (p c') = cur O (p c) /\ clean O (p c') = clean O (p c) /\ tagged O (p c') = tagged O (p c) /\
    (forall sub nm, In (sub, nm) (tree_names O FUEL I) -> lookup_own O sub (p c') nm = None) /\
    (forall sub nm, ~ In (sub, nm) (tree_names O FUEL I) -> lookup_own O sub (p c') nm = lookup_own O sub (p c) nm).
Proof. exact purge_exact. Qed.
Print Assumptions C14_purge_exact.

(* calling calculate() again changes nothing *)
Theorem C14_calculate_idempotent_leaf :
  forall (O : NumOps) (I : ind O) (calc : store O -> Z -> res (val O)),
  i_subs O I = [] /\ i_managed O I = [] ->
  (forall rec st i, calc_reading O rec I st i = (v <- calc st i ;; Ok (v, st))) ->
  Causal O I calc ->
  forall (ds : list (cd (payload O))) st, Forall (fresh O I) ds ->
  calculate O I ds = Ok st -> calculate O I st = Ok st.
Proof. intros O I calc Hl Hp Hc ds st Hf H. eapply engine_calculate_idempotent; eassumption. Qed.
Print Assumptions C14_calculate_idempotent_leaf.

(* recalculate() = purge then calculate reproduces exactly the readings it replaced: st is
   any store the engine can have produced (IsCanon: built candle by candle by calculate /
   append in any schedule, C01) *)
Theorem C14_recalculate_reproduces_leaf :
  forall (O : NumOps) (I : ind O) (calc : store O -> Z -> res (val O)),
  i_subs O I = [] /\ i_managed O I = [] ->
  (forall rec st i, calc_reading O rec I st i = (v <- calc st i ;; Ok (v, st))) ->
  Causal O I calc ->
  forall st : store O, IsCanon O I calc st -> calculate O I (purge O I st) = Ok st.
Proof. intros O I calc Hl Hp Hc st H. eapply recalculate_reproduces; eassumption. Qed.
Print Assumptions C14_recalculate_reproduces_leaf.

(* calculate_index at an index that already holds a reading, positive or negative *)
Theorem C14_calc_index_reproduces_leaf :
  forall (O : NumOps) (I : ind O) (calc : store O -> Z -> res (val O)),
  i_subs O I = [] /\ i_managed O I = [] ->
  (forall rec st i, calc_reading O rec I st i = (v <- calc st i ;; Ok (v, st))) ->
  Causal O I calc ->
  forall (st : store O) (i : Z), IsCanon O I calc st -> (- zlen st <= i < zlen st)%Z ->
  calculate_index O I i None st = Ok st.
Proof. intros O I calc Hl Hp Hc st i H Hi. eapply calc_index_reproduces; eassumption. Qed.
Print Assumptions C14_calc_index_reproduces_leaf.

(* operation programs: from the empty indicator, any sequence of append(chunk), calculate(),
   purge(), recalculate() and calculate_index(i) on a computed index of a fully calculated
   store (Reach, Proofs/MaintProofs.v) leads to a state on which calculate() gives exactly
   what one calculate() over all the candles appended so far gives - the same store, or the
   same exception if the batch raises *)
Theorem C14_programs_converge_leaf :
  forall (O : NumOps) (I : ind O) (calc : store O -> Z -> res (val O)),
  i_subs O I = [] /\ i_managed O I = [] ->
  (forall rec st i, calc_reading O rec I st i = (v <- calc st i ;; Ok (v, st))) ->
  Causal O I calc ->
  forall (st : store O) (ds : list (cd (payload O))), Reach O I calc st ds ->
  calculate O I st = calculate O I ds.
Proof. intros O I calc Hl Hp Hc st ds H. eapply programs_converge; eassumption. Qed.
Print Assumptions C14_programs_converge_leaf.

(* the relation is inhabited by more than the empty program: e.g. append, purge, append *)
Example C14_reach_example :
  forall (O : NumOps) (I : ind O) (calc : store O -> Z -> res (val O)) xs ys s1 s2,
  Forall (fresh O I) xs -> Forall (fresh O I) ys ->
  calculate O I ([] ++ xs) = Ok s1 -> calculate O I (purge O I s1 ++ ys) = Ok s2 ->
  Reach O I calc s2 (([] ++ xs) ++ ys).
Proof.
  intros O I calc xs ys s1 s2 Hx Hy H1 H2.
  eapply R_append; [apply R_purge; eapply R_append; [apply R_init|exact Hx|exact H1]|exact Hy|exact H2].
Qed.

(* a composite indicator (ATR over its true-range helper): calling calculate() again changes nothing *)
Theorem C14_atr_calculate_idempotent :
  forall (O : NumOps) (period : Z) (name : string) (rnd : Z), (1 <= period)%Z -> has_dot name = false ->
  forall (xs : list (cd (payload O))) (st : store O),
  Forall (fresh O (Pa O period name rnd)) xs -> Forall (fresh O (Sb O name)) xs ->
  calculate O (top O (K_ATR period) name rnd) xs = Ok st -> calculate O (top O (K_ATR period) name rnd) st = Ok st.
Proof. intros O period name rnd Hp Hn xs st HP HS H. eapply atr_calculate_idempotent; eassumption. Qed.
Print Assumptions C14_atr_calculate_idempotent.

(* indicators with one managed helper series (VWAP, StandardDeviation, RSI): calling calculate()
   again changes nothing - neither the readings nor the helper's running state *)
Theorem C14_data_series_calculate_idempotent :
  forall (O : NumOps) (I : ind O) (key : string), data_node O I key -> data_kind O I key ->
  forall (ds : list (cd (payload O))) (st : store O), Forall (fresh_data O I) ds ->
  calculate O I ds = Ok st -> calculate O I st = Ok st.
Proof. exact data_calculate_idempotent. Qed.
Print Assumptions C14_data_series_calculate_idempotent.

(* the same indicators: recalculate() - purge() then calculate() - reproduces exactly the store it
   replaced (purge removes the readings and the helper series, nothing else; the recomputation
   rebuilds both) *)
Theorem C14_data_series_recalculate_reproduces :
  forall (O : NumOps) (I : ind O) (key : string), data_node O I key -> data_kind O I key ->
  forall (ds : list (cd (payload O))) (st : store O), Forall (fresh_data O I) ds ->
  calculate O I ds = Ok st -> calculate O I (purge O I st) = Ok st.
Proof. exact data_recalculate_reproduces. Qed.
Print Assumptions C14_data_series_recalculate_reproduces.

(* ... recomputing an index that already holds a reading, addressed from either end, leaves the
   store - reading and helper entry - as it is *)
Theorem C14_data_series_calculate_index_reproduces :
  forall (O : NumOps) (I : ind O) (key : string), data_node O I key -> data_kind O I key ->
  forall (ds : list (cd (payload O))) (st : store O) (i : Z), Forall (fresh_data O I) ds ->
  calculate O I ds = Ok st -> (- zlen st <= i < zlen st)%Z -> calculate_index O I i None st = Ok st.
Proof. exact data_calc_index_reproduces. Qed.
Print Assumptions C14_data_series_calculate_index_reproduces.

(* ... and every program of append / calculate / purge / recalculate / calculate_index (right
   after a calculate(), so that the reading and its predecessors exist) ends in a state on which
   calculate() gives exactly what one calculate() over all appended candles gives *)
Theorem C14_data_series_programs_converge :
  forall (O : NumOps) (I : ind O) (key : string), data_node O I key -> data_kind O I key ->
  forall (st : store O) (ds : list (cd (payload O))), data_reach O I st ds ->
  calculate O I st = calculate O I ds.
Proof. exact data_programs_converge. Qed.
Print Assumptions C14_data_series_programs_converge.

(* the relation is inhabited by more than the empty program: append, purge, append, calculate,
   recompute the newest index *)
Example C14_data_reach_example :
  forall (O : NumOps) (I : ind O) xs ys s1 s2 s3 s4,
  Forall (fresh_data O I) xs -> Forall (fresh_data O I) ys ->
  calculate O I ([] ++ xs) = Ok s1 -> calculate O I (purge O I s1 ++ ys) = Ok s2 ->
  calculate O I s2 = Ok s3 -> (0 < zlen s3)%Z -> calculate_index O I (-1)%Z None s3 = Ok s4 ->
  data_reach O I s4 (([] ++ xs) ++ ys).
Proof.
  intros O I xs ys s1 s2 s3 s4 Hx Hy H1 H2 H3 Hl H4.
  eapply DR_calc_index with (st0 := s2) (st := s3) (i := (-1)%Z); [|exact H3|Lia.lia|exact H4].
  eapply DR_append; [apply DR_purge; eapply DR_append; [apply DR_init|exact Hx|exact H1]|exact Hy|exact H2].
Qed.

(* calling calculate() again changes nothing *)
Theorem C14_stdevthres_calculate_idempotent :
  forall (O : NumOps) (period : Z) (mult : num O) (input name : string) (rnd : Z),
  (1 <= period)%Z -> has_dot name = false ->
  (forall q, candle_attr O q (sdn name ++ "_data")%string = None) ->
  stable O (Pt O period mult input name rnd) input -> stable O (St O period input name) input ->
  stable O (dataM O (St O period input name)) input ->
  forall (xs : list (cd (payload O))) (st : store O),
  Forall (fresh_thres O period mult input name rnd) xs ->
  calculate O (Pt O period mult input name rnd) xs = Ok st -> calculate O (Pt O period mult input name rnd) st = Ok st.
Proof. intros O period mult input name rnd Hp Hn Ha H1 H2 H3. apply thres_calculate_idempotent; assumption. Qed.
Print Assumptions C14_stdevthres_calculate_idempotent.
