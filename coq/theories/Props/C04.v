(* C04 - Moving averages match their definitions and are position independent.
   The theorems are about the recurrence specifications of Spec/Steppers.v (tied to the
   implementation by their own bit-exact correspondence, check_spec), over the reals with
   round-half-even on round_value decimals; eps nd = half a unit of the last decimal. *)
From Coq Require Import ZArith List String Bool Reals.
From Flocq Require Import Core.
From Hexital Require Import Base.Prelude Base.Num Model.Candle Model.Manager Model.Readings Model.Engine Proofs.StructMore.
From Hexital Require Import Base.Prelude Base.Num Model.Candle Inst.RealInst Spec.Steppers
  Proofs.SpecGeneric Proofs.SpecReal Proofs.SpecMore Proofs.SpecRange.
Import ListNotations.
Local Open Scope R_scope.

(* EMA: r[t] = a*x[t] + (1-a)*r[t-1] with a = smoothing/(period+1), up to one rounding *)
Theorem C04_ema_recurrence :
  forall (p : Z) (sm : R) (nd : Z) (s : state ROps) (x pr : R), (0 < p)%Z -> s_prev ROps s = Some pr ->
  exists r s', ema_step ROps p sm nd s x = Ok (VNum r, s') /\ s_prev ROps s' = Some r /\
    Rabs (r - ((sm / (IZR p + 1)) * x + pr * (1 - sm / (IZR p + 1)))) <= eps nd.
Proof. exact ema_recurrence. Qed.
Print Assumptions C04_ema_recurrence.

(* RMA: the same with a = 1/period *)
Theorem C04_rma_recurrence :
  forall (p nd : Z) (s : state ROps) (x pr : R), (0 < p)%Z -> s_prev ROps s = Some pr ->
  exists r s', rma_step ROps p nd s x = Ok (VNum r, s') /\ s_prev ROps s' = Some r /\
    Rabs (r - ((1 / IZR p) * x + (1 - 1 / IZR p) * pr)) <= eps nd.
Proof. exact rma_recurrence. Qed.
Print Assumptions C04_rma_recurrence.

(* SMA: the incremental form r[t] = r[t-1] - (x[t-p] - x[t])/p, one rounding per step ... *)
Theorem C04_sma_recurrence :
  forall (p nd : Z) (s : state ROps) (x pr old : R),
  (0 < p)%Z -> s_prev ROps s = Some pr -> nth_error (s_buf ROps s) (Z.to_nat (p - 1)) = Some old ->
  exists r s', sma_step ROps p nd s x = Ok (VNum r, s') /\ s_prev ROps s' = Some r /\
    Rabs (r - (pr - (old - x) / IZR p)) <= eps nd.
Proof. exact sma_recurrence. Qed.
Print Assumptions C04_sma_recurrence.

(* ... started, like EMA, from the mean of the first full window *)
Theorem C04_sma_seed_is_window_mean :
  forall (p nd : Z) (s : state ROps) (x : R),
  (0 < p)%Z -> s_prev ROps s = None -> full ROps p (push ROps p x (s_buf ROps s)) = true ->
  exists r s', sma_step ROps p nd s x = Ok (VNum r, s') /\
    Rabs (r - fold_left Rplus (rev (push ROps p x (s_buf ROps s))) 0 / IZR p) <= eps nd.
Proof. exact sma_seed. Qed.
Print Assumptions C04_sma_seed_is_window_mean.

Theorem C04_ema_seed_is_window_mean :
  forall (p : Z) (sm : R) (nd : Z) (s : state ROps) (x : R),
  (0 < p)%Z -> s_prev ROps s = None -> full ROps p (push ROps p x (s_buf ROps s)) = true ->
  exists r s', ema_step ROps p sm nd s x = Ok (VNum r, s') /\
    Rabs (r - fold_left Rplus (rev (push ROps p x (s_buf ROps s))) 0 / IZR p) <= eps nd.
Proof. exact ema_seed. Qed.
Print Assumptions C04_ema_seed_is_window_mean.

(* no reading before `period` consecutive inputs exist *)
Theorem C04_no_reading_before_window_full :
  forall (p nd : Z) (sm : R) (s : state ROps) (x : R),
  s_prev ROps s = None -> full ROps p (push ROps p x (s_buf ROps s)) = false ->
  (exists s', sma_step ROps p nd s x = Ok (VNone, s') /\ s_prev ROps s' = None) /\
  (exists s', ema_step ROps p sm nd s x = Ok (VNone, s') /\ s_prev ROps s' = None) /\
  (exists s', wma_step ROps p nd s x = Ok (VNone, s') /\ s_prev ROps s' = None).
Proof. exact ma_no_reading_before_full. Qed.
Print Assumptions C04_no_reading_before_window_full.

(* every EMA reading lies inside any interval (with end points on the rounding grid) that
   holds the previous reading and the new input: by induction, inside the range of all
   the inputs it has averaged *)
Theorem C04_ema_within_input_range :
  forall (p : Z) (sm : R) (nd : Z) (s : state ROps) (x pr lo hi : R),
  (0 < p)%Z -> 0 < sm <= IZR p + 1 -> s_prev ROps s = Some pr ->
  generic_format radix10 (FIX_exp (- nd)) lo -> generic_format radix10 (FIX_exp (- nd)) hi ->
  lo <= pr <= hi -> lo <= x <= hi ->
  exists r s', ema_step ROps p sm nd s x = Ok (VNum r, s') /\ lo <= r <= hi.
Proof. exact ema_within_range. Qed.
Print Assumptions C04_ema_within_input_range.

(* position independence, for every NumOps instance (hence for the binary64 one): candles
   before the input series begins are skipped without a trace, so the readings depend on
   the input values only, not on where in the candle list they start *)
Theorem C04_position_independent :
  forall (O : NumOps) (k : kind_s O) (nd : Z), takes_input O k = true ->
  forall (pre cs : list (inp O)), Forall (fun c => x_in O c = None) pre ->
  series O k nd (pre ++ cs) = (vs <- series O k nd cs ;; Ok (map (fun _ => VNone) pre ++ vs)).
Proof. exact position_independent. Qed.
Print Assumptions C04_position_independent.

(* WMA: once the window is full, the reading is the rounded weighted mean with weights
   period (newest) ... 1 (oldest) over period (period + 1) / 2 *)
Theorem C04_wma_definition :
  forall (p nd : Z) (s : state ROps) (x : R),
  (0 < p)%Z -> full ROps p (push ROps p x (s_buf ROps s)) = true ->
  exists s', wma_step ROps p nd s x =
    Ok (@VNum ROps (rnd10 nd (wma_weighted p (push ROps p x (s_buf ROps s)) / (IZR (p * (p + 1)) / 2))), s').
Proof. exact wma_definition. Qed.
Print Assumptions C04_wma_definition.

(* HMA: the series handed to the final WMA(sqrt period) is 2 * WMA(period / 2) - WMA(period) *)
Theorem C04_hma_raw_series :
  forall (I : ind ROps) rec (period : Z) (input : String.string) (st st' : store ROps) i v (w wh : R),
  i_kind ROps I = K_HMA period input -> calc_reading ROps rec I st i = Ok (v, st') ->
  reading ROps st (String.append (i_name ROps I) "_WMA") i = Ok (@VNum ROps w) ->
  reading ROps st (String.append (i_name ROps I) "_WMAh") i = Ok (@VNum ROps wh) ->
  exists st1, managed_set ROps rec I "raw_HMA" (@VNum ROps (2 * wh - w)) i st = Ok st1 /\
              reading ROps st1 (String.append (i_name ROps I) "_HMAs") i = Ok v /\ st' = st1.
Proof. exact hma_raw. Qed.
Print Assumptions C04_hma_raw_series.

(* "every reading lies between the smallest and largest input it averages": the first SMA and EMA
   reading (the rounded mean of the first full window) and every WMA reading (weights period..1,
   all positive, summing to period(period+1)/2) lie inside any interval with end points on the
   rounding grid that contains the window; EMA's later readings by C04_ema_within_input_range *)
Theorem C04_sma_seed_within_input_range :
  forall (p nd : Z) (s : state ROps) (x lo hi : R),
  (0 < p)%Z -> s_prev ROps s = None -> full ROps p (push ROps p x (s_buf ROps s)) = true ->
  generic_format radix10 (FIX_exp (- nd)) lo -> generic_format radix10 (FIX_exp (- nd)) hi ->
  within lo hi (push ROps p x (s_buf ROps s)) ->
  exists r s', sma_step ROps p nd s x = Ok (VNum r, s') /\ lo <= r <= hi.
Proof. exact sma_seed_within_range. Qed.
Print Assumptions C04_sma_seed_within_input_range.

Theorem C04_ema_seed_within_input_range :
  forall (p : Z) (sm : R) (nd : Z) (s : state ROps) (x lo hi : R),
  (0 < p)%Z -> s_prev ROps s = None -> full ROps p (push ROps p x (s_buf ROps s)) = true ->
  generic_format radix10 (FIX_exp (- nd)) lo -> generic_format radix10 (FIX_exp (- nd)) hi ->
  within lo hi (push ROps p x (s_buf ROps s)) ->
  exists r s', ema_step ROps p sm nd s x = Ok (VNum r, s') /\ lo <= r <= hi.
Proof. exact ema_seed_within_range. Qed.
Print Assumptions C04_ema_seed_within_input_range.

Theorem C04_wma_within_input_range :
  forall (p nd : Z) (s : state ROps) (x lo hi : R),
  (0 < p)%Z -> full ROps p (push ROps p x (s_buf ROps s)) = true ->
  generic_format radix10 (FIX_exp (- nd)) lo -> generic_format radix10 (FIX_exp (- nd)) hi ->
  within lo hi (push ROps p x (s_buf ROps s)) ->
  exists r s', wma_step ROps p nd s x = Ok (VNum r, s') /\ lo <= r <= hi.
Proof. exact wma_within_range. Qed.
Print Assumptions C04_wma_within_input_range.
