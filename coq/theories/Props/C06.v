(* C06 - Momentum, oscillator and volume indicators match their definitions.
   Proved (recurrence specifications): RSI's value and range incl. the no-losses case, the
   invariants of Wilder's averages, OBV's step law, VWAP = cumulative volume-weighted typical
   price over the whole stream, ROC = percentage change against the input `period` steps
   back.  The other indicators are decided by the bit-exact engine correspondence and the
   reference falsifier. *)
From Coq Require Import ZArith List String Bool Reals.
From Hexital Require Import Base.Prelude Base.Num Model.Candle Model.Manager Model.Readings Model.Engine Proofs.StructMore.
From Hexital Require Import Inst.RealInst Spec.Steppers Proofs.SpecGeneric Proofs.SpecReal Proofs.SpecMore.
Import ListNotations.
Local Open Scope R_scope.

Theorem C06_rsi_value_in_range :
  forall (nd : Z) (g l : R), (0 <= nd)%Z -> 0 <= g -> 0 <= l ->
  exists r, rsi_value ROps nd g l = Ok r /\ 0 <= r <= 100.
Proof. exact rsi_value_range. Qed.
Print Assumptions C06_rsi_value_in_range.

Theorem C06_rsi_step :
  forall (p nd : Z) (s : state ROps) (x pr g0 l0 px : R) rest,
  (0 < p)%Z -> (0 <= nd)%Z -> s_prev ROps s = Some pr -> s_a ROps s = Some g0 -> s_b ROps s = Some l0 ->
  s_buf ROps s = px :: rest -> 0 <= g0 -> 0 <= l0 ->
  exists r s' g l, rsi_step ROps p nd s x = Ok (VNum r, s') /\ 0 <= r <= 100 /\
    s_a ROps s' = Some g /\ s_b ROps s' = Some l /\ 0 <= g /\ 0 <= l.
Proof. exact rsi_step_range. Qed.
Print Assumptions C06_rsi_step.

(* OBV: unchanged when the close is unchanged, plus the volume when it rose, minus when it
   fell - for every NumOps instance *)
Theorem C06_obv_step_law :
  forall (O : NumOps) nd (s s' : state O) (c : inp O) pr pc v,
  s_prev O s = Some pr -> s_a O s = Some pc -> step O S_OBV nd s c = Ok (v, s') ->
  (neqb O (x_c O c) pc = true /\ v = VNum pr) \/
  (neqb O (x_c O c) pc = false /\ nltb O pc (x_c O c) = true /\ v = VNum (rnd O nd (nadd O pr (x_v O c)))) \/
  (neqb O (x_c O c) pc = false /\ nltb O pc (x_c O c) = false /\ v = VNum (rnd O nd (nsub O pr (x_v O c)))).
Proof. exact obv_step_law. Qed.
Print Assumptions C06_obv_step_law.

(* VWAP over a whole stream: reading j is the rounded ratio of the cumulative sums of
   volume * typical price and of volume over candles 0..j (the plain cumulative sum while
   the cumulative volume is zero - the convention chosen for C09) *)
Theorem C06_vwap_is_cumulative :
  forall (nd : Z) (cs : list (inp ROps)),
  exists vs, series ROps S_VWAP nd cs = Ok vs /\
    Forall2 (fun (v : val ROps) pre => exists r : R, v = @VNum ROps r /\
               (sum_v pre <> 0 -> r = rnd10 nd (sum_pv pre / sum_v pre)) /\ (sum_v pre = 0 -> r = rnd10 nd (sum_pv pre)))
            vs (map (fun j => rev (firstn (S j) cs) ++ []) (seq 0 (List.length cs))).
Proof.
  intros nd cs. unfold series. apply vwap_is_cumulative. left. repeat split.
Qed.
Print Assumptions C06_vwap_is_cumulative.

Theorem C06_roc_definition :
  forall (p nd : Z) (s : state ROps) (x nb : R),
  (0 <= p)%Z -> full ROps (p + 1) (push ROps (p + 1) x (s_buf ROps s)) = true ->
  nth_error (push ROps (p + 1) x (s_buf ROps s)) (Z.to_nat p) = Some nb -> nb <> 0 ->
  exists s', roc_step ROps p nd s x = Ok (@VNum ROps (rnd10 nd ((x - nb) / nb * 100)), s').
Proof. exact roc_definition. Qed.
Print Assumptions C06_roc_definition.

(* MACD line = fast EMA - slow EMA of the same candle (engine model) *)
Theorem C06_macd_line :
  forall (I : ind ROps) rec (fast slow signal : Z) (input : string) (st st' : store ROps) i v (fn sn : R),
  i_kind ROps I = K_MACD fast slow signal input -> calc_reading ROps rec I st i = Ok (v, st') ->
  reading ROps st (String.append (i_name ROps I) "_EMA_slow") i = Ok (@VNum ROps sn) ->
  reading ROps st (String.append (i_name ROps I) "_EMA_fast") i = Ok (@VNum ROps fn) ->
  exists sg hist, v = VDict [("MACD"%string, @VNum ROps (fn - sn)); ("signal"%string, sg); ("histogram"%string, hist)].
Proof. exact macd_line. Qed.
Print Assumptions C06_macd_line.
