(* C06 - Momentum, oscillator and volume indicators match their definitions.
   Proved (recurrence specifications): RSI's value and range incl. the no-losses case, the
   invariants of Wilder's averages, OBV's step law.  The other indicators are decided by
   the bit-exact engine correspondence and the reference falsifier. *)
From Coq Require Import ZArith List String Bool Reals.
From Hexital Require Import Base.Prelude Base.Num Model.Candle Inst.RealInst Spec.Steppers
  Proofs.SpecGeneric Proofs.SpecReal.
Local Open Scope R_scope.

Theorem C06_rsi_value_in_range :
  forall (nd : Z) (g l : R), (0 <= nd)%Z -> 0 <= g -> 0 <= l ->
  exists r, rsi_value ROps nd g l = Ok r /\ 0 <= r <= 100.
Proof. exact rsi_value_range. Qed.
Print Assumptions C06_rsi_value_in_range.

Theorem C06_rsi_step :
  forall (p nd : Z) (s : state ROps) (x pr g0 l0 px : R) rest,
  (0 < p)%Z -> (0 <= nd)%Z -> s_prev ROps s = Some pr -> s_a ROps s = Some g0 -> s_b ROps s = Some l0 ->
  s_buf ROps s = px :: rest -> 0 <= g0 -> 0 <= l0 ->
  exists r s' g l, rsi_step ROps p nd s x = Ok (VNum r, s') /\ 0 <= r <= 100 /\
    s_a ROps s' = Some g /\ s_b ROps s' = Some l /\ 0 <= g /\ 0 <= l.
Proof. exact rsi_step_range. Qed.
Print Assumptions C06_rsi_step.

(* OBV: unchanged when the close is unchanged, plus the volume when it rose, minus when it
   fell - for every NumOps instance *)
Theorem C06_obv_step_law :
  forall (O : NumOps) nd (s s' : state O) (c : inp O) pr pc v,
  s_prev O s = Some pr -> s_a O s = Some pc -> step O S_OBV nd s c = Ok (v, s') ->
  (neqb O (x_c O c) pc = true /\ v = VNum pr) \/
  (neqb O (x_c O c) pc = false /\ nltb O pc (x_c O c) = true /\ v = VNum (rnd O nd (nadd O pr (x_v O c)))) \/
  (neqb O (x_c O c) pc = false /\ nltb O pc (x_c O c) = false /\ v = VNum (rnd O nd (nsub O pr (x_v O c)))).
Proof. exact obv_step_law. Qed.
Print Assumptions C06_obv_step_law.
