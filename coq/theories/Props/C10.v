(* C10 - Outputs satisfy their structural invariants on every input.
   Proved (recurrence specifications over the reals, exact - rounding is monotone and
   fixes the grid): RSI in [0,100]; TR >= high-low >= 0 (after rounding); ATR >= 0; EMA
   within the range of its inputs; OBV moves by 0 or the volume.  Proved about the faithful
   _calculate_reading models over the reals, for any store and index (before the final
   rounding, which is monotone): Aroon up/down in [0,100] and oscillator = up - down; Donchian
   middle = mean of its bounds and between them; Keltner and Bollinger band order; MACD
   histogram = MACD - signal; Supertrend direction / long / short / trend.  The remaining
   relations of the property are decided by correspondence + falsifier. *)
From Coq Require Import ZArith List String Bool Reals.
From Flocq Require Import Core.
From Hexital Require Import Base.Prelude Base.Num Model.Manager Model.Candle Model.Readings Model.Engine
  Inst.RealInst Spec.Steppers Proofs.SpecGeneric Proofs.SpecReal Proofs.StructProofs Proofs.StochProofs Proofs.TsiProofs Proofs.AdxProofs.
Import ListNotations.
Local Open Scope string_scope.
Local Open Scope R_scope.

Theorem C10_rsi_in_0_100 :
  forall (p nd : Z) (s : state ROps) (x pr g0 l0 px : R) rest,
  (0 < p)%Z -> (0 <= nd)%Z -> s_prev ROps s = Some pr -> s_a ROps s = Some g0 -> s_b ROps s = Some l0 ->
  s_buf ROps s = px :: rest -> 0 <= g0 -> 0 <= l0 ->
  exists r s' g l, rsi_step ROps p nd s x = Ok (VNum r, s') /\ 0 <= r <= 100 /\
    s_a ROps s' = Some g /\ s_b ROps s' = Some l /\ 0 <= g /\ 0 <= l.
Proof. exact rsi_step_range. Qed.
Print Assumptions C10_rsi_in_0_100.

Theorem C10_tr_at_least_range :
  forall (nd : Z) (s : state ROps) (c : inp ROps) pc, (0 <= nd)%Z ->
  x_l ROps c <= x_h ROps c -> s_a ROps s = Some pc ->
  exists r s', step ROps S_TR nd s c = Ok (VNum r, s') /\
    rnd10 nd (x_h ROps c - x_l ROps c) <= r /\ 0 <= r.
Proof. exact tr_reading_bounds. Qed.
Print Assumptions C10_tr_at_least_range.

Theorem C10_atr_nonnegative :
  forall (p nd : Z) (s : state ROps) (c : inp ROps) pc pr, (0 < p)%Z ->
  x_l ROps c <= x_h ROps c -> s_a ROps s = Some pc -> s_prev ROps s = Some pr -> 0 <= pr ->
  exists r s', step ROps (S_ATR p) nd s c = Ok (VNum r, s') /\ 0 <= r.
Proof. exact atr_nonneg. Qed.
Print Assumptions C10_atr_nonnegative.

Theorem C10_ema_within_input_range :
  forall (p : Z) (sm : R) (nd : Z) (s : state ROps) (x pr lo hi : R),
  (0 < p)%Z -> 0 < sm <= IZR p + 1 -> s_prev ROps s = Some pr ->
  generic_format radix10 (FIX_exp (- nd)) lo -> generic_format radix10 (FIX_exp (- nd)) hi ->
  lo <= pr <= hi -> lo <= x <= hi ->
  exists r s', ema_step ROps p sm nd s x = Ok (VNum r, s') /\ lo <= r <= hi.
Proof. exact ema_within_range. Qed.
Print Assumptions C10_ema_within_input_range.

(* every stored reading is on the round_value grid: rounding is idempotent *)
Theorem C10_readings_are_rounded : forall nd x, rnd10 nd (rnd10 nd x) = rnd10 nd x.
Proof. exact rnd10_idem. Qed.
Print Assumptions C10_readings_are_rounded.

(* ---- relations of a single reading, for the engine's own _calculate_reading ---- *)
Theorem C10_aroon_range_and_oscillator :
  forall (I : ind ROps) rec (period : Z) (st st' : store ROps) i v, (1 <= period)%Z ->
  i_kind ROps I = K_AROON period -> calc_reading ROps rec I st i = Ok (v, st') ->
  v = VDict [("AROONU", VNone); ("AROOND", VNone); ("AROONOSC", VNone)] \/
  exists u d : R, v = VDict [("AROONU", @VNum ROps u); ("AROOND", @VNum ROps d); ("AROONOSC", @VNum ROps (u - d))] /\
                  0 <= u <= 100 /\ 0 <= d <= 100.
Proof. exact aroon_structure. Qed.
Print Assumptions C10_aroon_range_and_oscillator.

Theorem C10_donchian_middle :
  forall (I : ind ROps) rec (period : Z) (st st' : store ROps) i v,
  i_kind ROps I = K_DONCHIAN period -> calc_reading ROps rec I st i = Ok (v, st') ->
  v = VDict [("DCL", VNone); ("DCM", VNone); ("DCU", VNone)] \/
  exists (l u : val ROps) (ln un : R), v = VDict [("DCL", l); ("DCM", @VNum ROps ((un + ln) / 2)); ("DCU", u)] /\
    as_num ROps l = Ok ln /\ as_num ROps u = Ok un /\ (ln <= un -> ln <= (un + ln) / 2 <= un).
Proof. exact donchian_structure. Qed.
Print Assumptions C10_donchian_middle.

Theorem C10_keltner_band_order :
  forall (I : ind ROps) rec (period : Z) (mult : R) (input : string) (st st' : store ROps) i v,
  i_kind ROps I = @K_KC ROps period mult input -> calc_reading ROps rec I st i = Ok (v, st') ->
  v = VDict [("lower", VNone); ("band", VNone); ("upper", VNone)] \/
  exists (e a : val ROps) (en an : R),
    v = VDict [("lower", @VNum ROps (en - mult * an)); ("band", e); ("upper", @VNum ROps (en + mult * an))] /\
    reading ROps st (i_name ROps I ++ "_EMA") i = Ok e /\ reading ROps st (i_name ROps I ++ "_ATR") i = Ok a /\
    as_num ROps e = Ok en /\ as_num ROps a = Ok an /\
    (0 <= mult -> 0 <= an -> en - mult * an <= en <= en + mult * an).
Proof. exact kc_structure. Qed.
Print Assumptions C10_keltner_band_order.

Theorem C10_bollinger_band_order :
  forall (I : ind ROps) rec (period : Z) (input : string) (st st' : store ROps) i v,
  i_kind ROps I = K_BBANDS period input -> calc_reading ROps rec I st i = Ok (v, st') ->
  v = VDict [("BBL", VNone); ("BBM", VNone); ("BBU", VNone)] \/
  exists (sma sd : val ROps) (s d : R),
    v = VDict [("BBL", @VNum ROps (s - d * (20 / 10))); ("BBM", sma); ("BBU", @VNum ROps (s + d * (20 / 10)))] /\
    reading ROps st (i_name ROps I ++ "_SMA") i = Ok sma /\ reading ROps st (i_name ROps I ++ "_STDEV") i = Ok sd /\
    as_num ROps sma = Ok s /\ as_num ROps sd = Ok d /\
    (0 <= d -> s - d * (20 / 10) <= s <= s + d * (20 / 10)).
Proof. exact bbands_structure. Qed.
Print Assumptions C10_bollinger_band_order.

Theorem C10_macd_histogram :
  forall (I : ind ROps) rec (fast slow signal : Z) (input : string) (st st' : store ROps) i v,
  i_kind ROps I = K_MACD fast slow signal input -> calc_reading ROps rec I st i = Ok (v, st') ->
  v = VDict [("MACD", VNone); ("signal", VNone); ("histogram", VNone)] \/
  exists (m : R) (sg : val ROps),
    (v = VDict [("MACD", @VNum ROps m); ("signal", sg); ("histogram", VNone)] /\ sg = VNone) \/
    (exists s : R, as_num ROps sg = Ok s /\ v = VDict [("MACD", @VNum ROps m); ("signal", sg); ("histogram", @VNum ROps (m - s))]).
Proof. exact macd_structure. Qed.
Print Assumptions C10_macd_histogram.

Theorem C10_supertrend_sides :
  forall (I : ind ROps) rec (period : Z) (mult : R) (st st' : store ROps) i v,
  i_kind ROps I = @K_SUPERTREND ROps period mult -> calc_reading ROps rec I st i = Ok (v, st') ->
  v = VDict [("trend", VNone); ("direction", @VNum ROps (IZR 1)); ("long", VNone); ("short", VNone)] \/
  exists (dv : val ROps) (upper lower : R),
    (is_pm1 dv \/ prev_reading ROps st (i_name ROps I ++ ".direction") i = Ok dv) /\
    (dv = @VNum ROps (IZR 1) ->
       v = VDict [("trend", @VNum ROps lower); ("direction", dv); ("long", @VNum ROps lower); ("short", VNone)]) /\
    (dv = @VNum ROps (IZR (-1)) ->
       v = VDict [("trend", @VNum ROps upper); ("direction", dv); ("long", VNone); ("short", @VNum ROps upper)]).
Proof. exact supertrend_structure. Qed.
Print Assumptions C10_supertrend_sides.

(* Stochastic: the oscillator value of a reading lies in [0, 100] whenever the input at the
   candle lies between the candle's own low and high (as close, open, high, low of a
   well-formed candle do): the window minimum of the lows is at most the candle's low and the
   window maximum of the highs at least its high *)
Theorem C10_stochastic_range :
  forall (I : ind ROps) rec (period slow smoothk : Z) (input : string) (st st' : store ROps) i v (lw hg x : R),
  (1 <= period)%Z -> i_kind ROps I = K_STOCH period slow smoothk input ->
  calc_reading ROps rec I st i = Ok (v, st') ->
  rnum ROps st "low" i = Ok lw -> rnum ROps st "high" i = Ok hg -> rnum ROps st input i = Ok x -> lw <= x <= hg ->
  v = VDict [("stoch", VNone); ("k", VNone); ("d", VNone)] \/
  exists (s : R) (k d : val ROps), v = VDict [("stoch", @VNum ROps s); ("k", k); ("d", d)] /\ 0 <= s <= 100.
Proof. exact stoch_range. Qed.
Print Assumptions C10_stochastic_range.

(* TSI = 100 * EMA(EMA(m)) / EMA(EMA(|m|)): in [-100, 100] because an EMA over a series
   dominated by another stays dominated - at the seed, at every recurrence step, through the
   rounding of every stored stage - so |numerator| <= denominator by induction over the two
   smoothing stages *)
Theorem C10_tsi_seed_dominated :
  forall (p : Z) (sm : R) (nd : Z) (s1 s2 : state ROps) (x1 x2 : R),
  (0 < p)%Z -> s_prev ROps s1 = None -> s_prev ROps s2 = None ->
  full ROps p (push ROps p x1 (s_buf ROps s1)) = true -> full ROps p (push ROps p x2 (s_buf ROps s2)) = true ->
  Forall2 (fun u v => Rabs u <= v) (push ROps p x1 (s_buf ROps s1)) (push ROps p x2 (s_buf ROps s2)) ->
  exists r1 r2 s1' s2', ema_step ROps p sm nd s1 x1 = Ok (VNum r1, s1') /\ ema_step ROps p sm nd s2 x2 = Ok (VNum r2, s2') /\
    Rabs r1 <= r2.
Proof. exact ema_seed_dominated. Qed.
Print Assumptions C10_tsi_seed_dominated.

Theorem C10_tsi_step_dominated :
  forall (p : Z) (sm : R) (nd : Z) (s1 s2 : state ROps) (x1 x2 p1 p2 : R),
  (0 < p)%Z -> 0 < sm <= IZR p + 1 -> s_prev ROps s1 = Some p1 -> s_prev ROps s2 = Some p2 ->
  Rabs x1 <= x2 -> Rabs p1 <= p2 ->
  exists r1 r2 s1' s2', ema_step ROps p sm nd s1 x1 = Ok (VNum r1, s1') /\ ema_step ROps p sm nd s2 x2 = Ok (VNum r2, s2') /\
    Rabs r1 <= r2.
Proof. exact ema_step_dominated. Qed.
Print Assumptions C10_tsi_step_dominated.

Theorem C10_tsi_ratio_range : forall s a : R, Rabs s <= a -> 0 < a -> -100 <= 100 * (s / a) <= 100.
Proof. exact tsi_ratio_range. Qed.
Print Assumptions C10_tsi_ratio_range.

(* ADX = Wilder's average of DX = 100 |+DI - -DI| / (+DI + -DI): DX lies in [0,100], and
   Wilder's recurrence keeps a reading in [0,100] when the previous reading and the new DX are *)
Theorem C10_dx_range : forall dp dn : R, 0 <= dp -> 0 <= dn -> 0 < dp + dn -> 0 <= 100 * (Rabs (dp - dn) / (dp + dn)) <= 100.
Proof. exact dx_range. Qed.
Print Assumptions C10_dx_range.

Theorem C10_adx_step_range :
  forall (p nd : Z) (s : state ROps) (dx pr : R),
  (0 < p)%Z -> (0 <= nd)%Z -> s_prev ROps s = Some pr -> 0 <= pr <= 100 -> 0 <= dx <= 100 ->
  exists r s', rma_step ROps p nd s dx = Ok (VNum r, s') /\ 0 <= r <= 100.
Proof. exact adx_step_range. Qed.
Print Assumptions C10_adx_step_range.

From Hexital Require Import Proofs.DonchianEnclose.
(* "Donchian enclosing the candle's own high and low": about the faithful _calculate_reading model,
   for the candle at index |a| of any store a ++ c :: rest - the bounds are the extremes of windows of
   the high and low readings that include the candle itself (highest/lowest return a bound of their
   window, C05; the window ends with the candle's own reading) *)
Theorem C10_donchian_encloses_the_candle :
  forall (I : ind ROps) rec (period : Z) (a rest : store ROps) (c : cd (payload ROps)) st' l u ln un dm,
  i_kind ROps I = K_DONCHIAN period -> (1 <= period)%Z ->
  calc_reading ROps rec I (a ++ c :: rest)%list (zlen a) = Ok (VDict [("DCL", l); ("DCM", dm); ("DCU", u)], st') ->
  as_num ROps l = Ok ln -> as_num ROps u = Ok un -> l <> VBool false -> u <> VBool false ->
  ln <= c_low ROps (cur ROps (p c)) /\ c_high ROps (cur ROps (p c)) <= un.
Proof. exact donchian_encloses_candle. Qed.
Print Assumptions C10_donchian_encloses_the_candle.

From Hexital Require Import Proofs.SupertrendRatchet.
(* "Supertrend's trailing bands ratchet": about the faithful _calculate_reading model, for any store and
   index - while the close stays between the previous candle's stored bands and the previous direction is
   long (+1), the reading stays long and its trend, the lower band, is not below the previous stored lower
   band (it only moves up); symmetrically a short (-1) trend's upper band only moves down.  (warmup is the
   all-None reading returned while the ATR helper has no reading yet.) *)
Theorem C10_supertrend_long_band_ratchets :
  forall (I : ind ROps) rec (period : Z) (mult : R) (st st' : store ROps) i v pl pu (pln pun cl : R),
  i_kind ROps I = @K_SUPERTREND ROps period mult -> calc_reading ROps rec I st i = Ok (v, st') ->
  prev_reading ROps st (i_name ROps I ++ "_data.lower")%string i = Ok pl -> is_none ROps pl = false -> as_num ROps pl = Ok pln ->
  prev_reading ROps st (i_name ROps I ++ "_data.upper")%string i = Ok pu -> as_num ROps pu = Ok pun ->
  rnum ROps st "close"%string i = Ok cl ->
  prev_reading ROps st (i_name ROps I ++ ".direction")%string i = Ok (@VNum ROps (IZR 1)) ->
  pln <= cl <= pun ->
  v = warmup \/
  exists lower : R, pln <= lower /\
    v = VDict [("trend"%string, @VNum ROps lower); ("direction"%string, @VNum ROps (IZR 1));
               ("long"%string, @VNum ROps lower); ("short"%string, VNone)].
Proof. exact supertrend_long_ratchets. Qed.
Print Assumptions C10_supertrend_long_band_ratchets.

Theorem C10_supertrend_short_band_ratchets :
  forall (I : ind ROps) rec (period : Z) (mult : R) (st st' : store ROps) i v pl pu (pln pun cl : R),
  i_kind ROps I = @K_SUPERTREND ROps period mult -> calc_reading ROps rec I st i = Ok (v, st') ->
  prev_reading ROps st (i_name ROps I ++ "_data.lower")%string i = Ok pl -> is_none ROps pl = false -> as_num ROps pl = Ok pln ->
  prev_reading ROps st (i_name ROps I ++ "_data.upper")%string i = Ok pu -> as_num ROps pu = Ok pun ->
  rnum ROps st "close"%string i = Ok cl ->
  prev_reading ROps st (i_name ROps I ++ ".direction")%string i = Ok (@VNum ROps (IZR (-1))) ->
  pln <= cl <= pun ->
  v = warmup \/
  exists upper : R, upper <= pun /\
    v = VDict [("trend"%string, @VNum ROps upper); ("direction"%string, @VNum ROps (IZR (-1)));
               ("long"%string, VNone); ("short"%string, @VNum ROps upper)].
Proof. exact supertrend_short_ratchets. Qed.
Print Assumptions C10_supertrend_short_band_ratchets.
