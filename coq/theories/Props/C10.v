(* C10 - Outputs satisfy their structural invariants on every input.
   Proved (recurrence specifications over the reals, exact - rounding is monotone and
   fixes the grid): RSI in [0,100]; TR >= high-low >= 0 (after rounding); ATR >= 0; EMA
   within the range of its inputs; OBV moves by 0 or the volume.  The remaining relations
   of the property are decided by correspondence + falsifier. *)
From Coq Require Import ZArith List String Bool Reals.
From Flocq Require Import Core.
From Hexital Require Import Base.Prelude Base.Num Model.Candle Inst.RealInst Spec.Steppers
  Proofs.SpecGeneric Proofs.SpecReal.
Local Open Scope R_scope.

Theorem C10_rsi_in_0_100 :
  forall (p nd : Z) (s : state ROps) (x pr g0 l0 px : R) rest,
  (0 < p)%Z -> (0 <= nd)%Z -> s_prev ROps s = Some pr -> s_a ROps s = Some g0 -> s_b ROps s = Some l0 ->
  s_buf ROps s = px :: rest -> 0 <= g0 -> 0 <= l0 ->
  exists r s' g l, rsi_step ROps p nd s x = Ok (VNum r, s') /\ 0 <= r <= 100 /\
    s_a ROps s' = Some g /\ s_b ROps s' = Some l /\ 0 <= g /\ 0 <= l.
Proof. exact rsi_step_range. Qed.
Print Assumptions C10_rsi_in_0_100.

Theorem C10_tr_at_least_range :
  forall (nd : Z) (s : state ROps) (c : inp ROps) pc, (0 <= nd)%Z ->
  x_l ROps c <= x_h ROps c -> s_a ROps s = Some pc ->
  exists r s', step ROps S_TR nd s c = Ok (VNum r, s') /\
    rnd10 nd (x_h ROps c - x_l ROps c) <= r /\ 0 <= r.
Proof. exact tr_reading_bounds. Qed.
Print Assumptions C10_tr_at_least_range.

Theorem C10_atr_nonnegative :
  forall (p nd : Z) (s : state ROps) (c : inp ROps) pc pr, (0 < p)%Z ->
  x_l ROps c <= x_h ROps c -> s_a ROps s = Some pc -> s_prev ROps s = Some pr -> 0 <= pr ->
  exists r s', step ROps (S_ATR p) nd s c = Ok (VNum r, s') /\ 0 <= r.
Proof. exact atr_nonneg. Qed.
Print Assumptions C10_atr_nonnegative.

Theorem C10_ema_within_input_range :
  forall (p : Z) (sm : R) (nd : Z) (s : state ROps) (x pr lo hi : R),
  (0 < p)%Z -> 0 < sm <= IZR p + 1 -> s_prev ROps s = Some pr ->
  generic_format radix10 (FIX_exp (- nd)) lo -> generic_format radix10 (FIX_exp (- nd)) hi ->
  lo <= pr <= hi -> lo <= x <= hi ->
  exists r s', ema_step ROps p sm nd s x = Ok (VNum r, s') /\ lo <= r <= hi.
Proof. exact ema_within_range. Qed.
Print Assumptions C10_ema_within_input_range.

(* every stored reading is on the round_value grid: rounding is idempotent *)
Theorem C10_readings_are_rounded : forall nd x, rnd10 nd (rnd10 nd x) = rnd10 nd x.
Proof. exact rnd10_idem. Qed.
Print Assumptions C10_readings_are_rounded.
