(* C19 - Reading state and converting input have no hidden side effects.
   In the functional model the read accessors (Model/Access.v, Model/Readings.v) are
   functions from a state to a value: they cannot change the state, there is nothing to
   prove about them, and the assurance that the *code's* accessors are equally pure comes
   from the falsifier (deep state snapshots around every accessor) - that part is partial.
   What is proved: calculating never alters a candle's timestamp, OHLCV, clean values or
   tag, nor any entry it does not own; and the equivalent encodings of a candle decode to
   the same candle. *)
From Coq Require Import ZArith List String Bool.
From Hexital Require Import Base.Prelude Base.Num Model.Manager Model.Candle Model.Readings Model.Engine
  Model.Hexital Proofs.FrameProofs Proofs.HexitalProofs.
Import ListNotations.

Theorem C19_calculating_never_alters_candle_data :
  forall (O : NumOps) (k : kind O) (name : string) (rnd : Z) (st st' : store O),
  calculate O (top O k name rnd) st = Ok st' ->
  Forall2 (fun c c' => t c' = t c /\ cur O (p c') = cur O (p c) /\ clean O (p c') = clean O (p c) /\
                       tagged O (p c') = tagged O (p c)) st st'.
Proof.
  intros O k name rnd st st' H. apply calculate_frame in H.
  induction H as [|c c' l l' Hc H IH]; constructor; [|exact IH].
  destruct Hc as (A & B & C & D & _). tauto.
Qed.
Print Assumptions C19_calculating_never_alters_candle_data.

Theorem C19_encodings_decode_to_the_same_candle :
  forall (O : NumOps) (o h l c v : num O) (ts : Z),
  let cnd := {| t := ts; p := raw_payload O (Build_ohlcv O o h l c v) |} in
  decode O (RC_candle O cnd) = Ok cnd /\
  decode O (RC_dict O o h l c v ts) = Ok cnd /\
  decode O (RC_list O [IT_num O o; IT_num O h; IT_num O l; IT_num O c; IT_num O v; IT_ts O ts]) = Ok cnd /\
  decode O (RC_list O [IT_ts O ts; IT_num O o; IT_num O h; IT_num O l; IT_num O c; IT_num O v]) = Ok cnd.
Proof. exact decode_encodings. Qed.
Print Assumptions C19_encodings_decode_to_the_same_candle.
