(* C19 - Reading state and converting input have no hidden side effects.
   In the functional model the read accessors (Model/Access.v, Model/Readings.v) are
   functions from a state to a value: they cannot change the state, there is nothing to
   prove about them, and the assurance that the *code's* accessors are equally pure comes
   from the falsifier (deep state snapshots around every accessor) - that part is partial.
   What is proved: calculating never alters a candle's timestamp, OHLCV, clean values or
   tag, nor any entry it does not own; the equivalent encodings of a candle decode to
   the same candle; Hexital.append hands the same candles to every manager (timeframe) it
   holds - also one whose indicators have all been removed - and no member operation
   (calculate, purge, recalculate, calculate_index, remove_indicator) drops a manager or
   touches its candle data. *)
From Coq Require Import ZArith List String Bool.
From Hexital Require Import Base.Prelude Base.Num Model.Manager Model.Candle Model.Readings Model.Engine
  Model.Hexital Proofs.FrameProofs Proofs.HexitalProofs Proofs.DeliverProofs.
Import ListNotations.

Theorem C19_calculating_never_alters_candle_data :
  forall (O : NumOps) (k : kind O) (name : string) (rnd : Z) (st st' : store O),
  calculate O (top O k name rnd) st = Ok st' ->
  Forall2 (fun c c' => t c' = t c /\ cur O (p c') = cur O (p c) /\ clean O (p c') = clean O (p c) /\
                       tagged O (p c') = tagged O (p c)) st st'.
Proof.
  intros O k name rnd st st' H. apply calculate_frame in H.
  induction H as [|c c' l l' Hc H IH]; constructor; [|exact IH].
  destruct Hc as (A & B & C & D & _). tauto.
Qed.
Print Assumptions C19_calculating_never_alters_candle_data.

Theorem C19_encodings_decode_to_the_same_candle :
  forall (O : NumOps) (o h l c v : num O) (ts : Z),
  let cnd := {| t := ts; p := raw_payload O (Build_ohlcv O o h l c v) |} in
  decode O (RC_candle O cnd) = Ok cnd /\
  decode O (RC_dict O o h l c v ts) = Ok cnd /\
  decode O (RC_list O [IT_num O o; IT_num O h; IT_num O l; IT_num O c; IT_num O v; IT_ts O ts]) = Ok cnd /\
  decode O (RC_list O [IT_ts O ts; IT_num O o; IT_num O h; IT_num O l; IT_num O c; IT_num O v]) = Ok cnd.
Proof. exact decode_encodings. Qed.
Print Assumptions C19_encodings_decode_to_the_same_candle.

Theorem C19_append_reaches_every_timeframe :
  forall (O : NumOps) (h h' : hexital O) (new : list (cd (payload O))),
  members_wf O h -> hx_append O h new = Ok h' ->
  Forall2 (fun kv kv' => fst kv' = fst kv /\ fst (snd kv') = fst (snd kv) /\
                         exists st1, mgr_append O (fst (snd kv)) (snd (snd kv)) new = Ok st1 /\
                                     data_eq O st1 (snd (snd kv')))
          (h_mgrs O h) (h_mgrs O h') /\ h_members O h' = h_members O h.
Proof. exact append_delivers_everywhere. Qed.
Print Assumptions C19_append_reaches_every_timeframe.

Theorem C19_member_operations_keep_every_manager :
  forall (O : NumOps) (hcfg : mcfg) (h h' : hexital O) (op : hop O),
  members_wf O h ->
  match op with HAppend _ _ | HAdd _ _ _ => False | _ => True end ->
  hx_step O hcfg h op = Ok h' ->
  mgrs_rel O (data_eq O) (h_mgrs O h) (h_mgrs O h').
Proof. exact member_ops_keep_managers. Qed.
Print Assumptions C19_member_operations_keep_every_manager.

(* the hypothesis is met by every Hexital whose members are shipped indicators - and by one
   with an orphaned timeframe and no member at all *)
Example C19_shipped_members_are_well_formed :
  forall (O : NumOps) (k : kind O) (name : string) (rnd : Z) (key : string) mgrs,
  members_wf O {| h_mgrs := mgrs; h_members := [{| m_ind := top O k name rnd; m_mgr := key |}] |} /\
  members_wf O {| h_mgrs := mgrs; h_members := [] |}.
Proof. intros. split; [constructor; [apply wf_top|constructor]|constructor]. Qed.
