(* C05 - Volatility, range, channel and utility indicators match their definitions.
   Proved: true range and ATR (recurrence specifications over the reals); Counter = length
   of the current run, on every stream and for every numeric instance (faithful engine);
   the decision rule of the standard-deviation threshold flag (faithful engine, reals).  The
   other indicators of this property are decided by the bit-exact engine correspondence and
   the reference falsifier; see the level note. *)
From Coq Require Import ZArith List String Bool Reals.
From Hexital Require Import Base.Prelude Base.Num Model.Manager Model.Candle Model.Readings Model.Engine
  Inst.RealInst Inst.ZInst Inst.FloatInst Spec.Steppers Proofs.SpecReal
  Model.Analysis Proofs.EngineProofs Proofs.CausalProofs Proofs.CounterProofs Proofs.IntLawsInst Proofs.ThresProofs Proofs.ExtremeProofs Proofs.StdevProofs Proofs.StructProofs.
Import ListNotations.
Local Open Scope R_scope.

(* the true range dominates the candle's own range and both gap distances *)
Theorem C05_true_range_definition :
  forall (h l pc : R), l <= h ->
  h - l <= true_range ROps h l pc /\ 0 <= true_range ROps h l pc /\
  Rabs (h - pc) <= true_range ROps h l pc /\ Rabs (l - pc) <= true_range ROps h l pc.
Proof. exact true_range_bounds. Qed.
Print Assumptions C05_true_range_definition.

Theorem C05_tr_reading :
  forall (nd : Z) (s : state ROps) (c : inp ROps) pc, (0 <= nd)%Z ->
  x_l ROps c <= x_h ROps c -> s_a ROps s = Some pc ->
  exists r s', step ROps S_TR nd s c = Ok (VNum r, s') /\
    rnd10 nd (x_h ROps c - x_l ROps c) <= r /\ 0 <= r.
Proof. exact tr_reading_bounds. Qed.
Print Assumptions C05_tr_reading.

Theorem C05_atr_nonnegative :
  forall (p nd : Z) (s : state ROps) (c : inp ROps) pc pr, (0 < p)%Z ->
  x_l ROps c <= x_h ROps c -> s_a ROps s = Some pc -> s_prev ROps s = Some pr -> 0 <= pr ->
  exists r s', step ROps (S_ATR p) nd s c = Ok (VNum r, s') /\ 0 <= r.
Proof. exact atr_nonneg. Qed.
Print Assumptions C05_atr_nonnegative.

(* Counter: the readings of a whole stream are the run lengths.  [rs] are the input readings
   of the candles [ds]; reading j is the number of most recent candles, up to j, whose input
   equals the counted value, candles without an input neither extending nor breaking the run
   (run_length takes the inputs newest first).  canon is the engine's result under every
   append schedule (C01_schedule_independence_leaf with C01_obligations_COUNTER). *)
Theorem C05_counter_is_run_length :
  forall (O : NumOps) (I : ind O) (input : string) (cv : val O),
  i_kind O I = K_COUNTER input cv -> i_sub O I = false ->
  (has_dot (i_name O I) = false /\ forall q, candle_attr O q (i_name O I) = None) ->
  IntLaws O -> (0 <= i_round O I)%Z ->
  forall (ds : list (cd (payload O))) (rs : list (val O)),
  Forall2 (fun d r => reading_by_candle O (p d) input = Ok r) ds rs ->
  canon O I (pure_calc O I) ds =
  Ok (deco O I ds (map (fun j => run_length O cv (rev (firstn (S j) rs))) (seq 0 (List.length rs)))).
Proof. intros O I input cv K Ht Hp L Hr ds rs HF. eapply counter_is_run_length; eassumption. Qed.
Print Assumptions C05_counter_is_run_length.

(* the integer laws the Counter theorem asks of the numeric instance hold for CPython's
   int/float tower (whatever the pow table), for the reals and for Z *)
Theorem C05_counter_instances :
  (forall tbl, IntLaws (FOps tbl)) /\ IntLaws ROps /\ IntLaws ZOps.
Proof. split; [exact intlaws_F|split; [exact intlaws_R|exact intlaws_Z]]. Qed.
Print Assumptions C05_counter_instances.

(* a concrete run: inputs T T F None T T (oldest first) count 1 2 0 0 1 2 *)
Example C05_counter_example :
  map (fun j => run_length ZOps (VBool true)
                  (rev (firstn (S j) [VBool true; VBool true; VBool false; VNone; VBool true; VBool true])))
      (seq 0 6) = [1; 2; 0; 0; 1; 2]%Z.
Proof. reflexivity. Qed.

(* standard-deviation threshold: False while sigma has no reading; otherwise True exactly
   when the input moved by strictly more than multiplier * sigma since the previous candle *)
Theorem C05_threshold_flag :
  forall (I : ind ROps) (period : Z) (mult : R) (input : string),
  i_kind ROps I = @K_STDEVTHRES ROps period mult input ->
  forall rec (st : store ROps) i,
  (reading ROps st (i_name ROps I ++ "_stdev") i = Ok VNone ->
   calc_reading ROps rec I st i = Ok (VBool false, st)) /\
  (forall s x px : R,
   reading ROps st (i_name ROps I ++ "_stdev") i = Ok (@VNum ROps s) ->
   reading ROps st input i = Ok (@VNum ROps x) ->
   prev_reading ROps st input i = Ok (@VNum ROps px) ->
   exists b, calc_reading ROps rec I st i = Ok (VBool b, st) /\ (b = true <-> Rabs (x - px) > mult * s)).
Proof.
  intros I period mult input K rec st i. split.
  - intros H. eapply thres_no_sigma; eassumption.
  - intros s x px Hs Hx Hp. eapply thres_flag; eassumption.
Qed.
Print Assumptions C05_threshold_flag.

(* Donchian channel and Highest/Lowest are built from movement.highest / lowest over the
   window (clean_readings: the number-like readings of the `length`+1 candles ending at the
   index, clamped at candle 0): over the reals the value returned is an element of that window
   and bounds every element of it *)
Theorem C05_highest_is_window_max :
  forall (cs : list (cd (payload ROps))) (name : string) (length index : Z) (v : val ROps),
  mv_highest ROps cs name length index = Ok v -> v <> VNone -> v <> VBool false ->
  exists i rs, absindex index (zlen cs) = Some i /\ clean_readings ROps cs name length i true = Ok rs /\
    In v rs /\ forall y, In y rs -> num_of ROps y <= num_of ROps v.
Proof. exact highest_is_window_max. Qed.
Print Assumptions C05_highest_is_window_max.

Theorem C05_lowest_is_window_min :
  forall (cs : list (cd (payload ROps))) (name : string) (length index : Z) (v : val ROps),
  mv_lowest ROps cs name length index = Ok v -> v <> VNone -> v <> VBool false ->
  exists i rs, absindex index (zlen cs) = Some i /\ clean_readings ROps cs name length i true = Ok rs /\
    In v rs /\ forall y, In y rs -> num_of ROps v <= num_of ROps y.
Proof. exact lowest_is_window_min. Qed.
Print Assumptions C05_lowest_is_window_min.

(* rolling population standard deviation: the update of the stored mean and variance when
   the window slides is exact - S and Q are the sum and the sum of squares of the old window
   of p slots, x enters, r leaves *)
Theorem C05_rolling_update_identity :
  forall p S Q x r : R, p <> 0 ->
  let m := S / p in let v := Q / p - m * m in
  let m' := m + (x - r) / p in
  let v' := v + (x - r) * (x - m' + r - m) / p in
  m' = (S - r + x) / p /\ v' = (Q - r * r + x * x) / p - m' * m'.
Proof. exact rolling_update_identity. Qed.
Print Assumptions C05_rolling_update_identity.

(* ... and the reading of a candle is the square root of exactly that updated variance
   (clamped at 0), or None until the window is available *)
Theorem C05_stdev_reading :
  forall (I : ind ROps) rec (period : Z) (input : string) (st st' : store ROps) i v (x : R),
  (0 < period)%Z -> i_kind ROps I = K_STDEV period input -> calc_reading ROps rec I st i = Ok (v, st') ->
  reading ROps st input i = Ok (@VNum ROps x) ->
  exists (removed old_mean var0 : R),
    let new_mean := old_mean + (x - removed) / IZR period in
    let variance := var0 + (x - removed) * (x - new_mean + removed - old_mean) / IZR period in
    v = VNone \/ v = @VNum ROps (sqrt (Rmax variance 0)).
Proof. exact stdev_reading. Qed.
Print Assumptions C05_stdev_reading.

(* Bollinger = SMA +/- 2 sigma and Keltner = EMA +/- multiplier * ATR, as assembled by the
   classes from their helper readings (the same statements serve C10's band order) *)
Theorem C05_bollinger_definition :
  forall (I : ind ROps) rec (period : Z) (input : string) (st st' : store ROps) i v,
  i_kind ROps I = K_BBANDS period input -> calc_reading ROps rec I st i = Ok (v, st') ->
  v = VDict [("BBL", VNone); ("BBM", VNone); ("BBU", VNone)]%string \/
  exists (sma sd : val ROps) (s d : R),
    v = VDict [("BBL", @VNum ROps (s - d * (20 / 10))); ("BBM", sma); ("BBU", @VNum ROps (s + d * (20 / 10)))]%string /\
    reading ROps st (i_name ROps I ++ "_SMA") i = Ok sma /\ reading ROps st (i_name ROps I ++ "_STDEV") i = Ok sd /\
    as_num ROps sma = Ok s /\ as_num ROps sd = Ok d /\
    (0 <= d -> s - d * (20 / 10) <= s <= s + d * (20 / 10)).
Proof. exact bbands_structure. Qed.
Print Assumptions C05_bollinger_definition.

Theorem C05_keltner_definition :
  forall (I : ind ROps) rec (period : Z) (mult : R) (input : string) (st st' : store ROps) i v,
  i_kind ROps I = @K_KC ROps period mult input -> calc_reading ROps rec I st i = Ok (v, st') ->
  v = VDict [("lower", VNone); ("band", VNone); ("upper", VNone)]%string \/
  exists (e a : val ROps) (en an : R),
    v = VDict [("lower", @VNum ROps (en - mult * an)); ("band", e); ("upper", @VNum ROps (en + mult * an))]%string /\
    reading ROps st (i_name ROps I ++ "_EMA") i = Ok e /\ reading ROps st (i_name ROps I ++ "_ATR") i = Ok a /\
    as_num ROps e = Ok en /\ as_num ROps a = Ok an /\
    (0 <= mult -> 0 <= an -> en - mult * an <= en <= en + mult * an).
Proof. exact kc_structure. Qed.
Print Assumptions C05_keltner_definition.

From Flocq Require Import Core.
From Hexital Require Import Spec.Steppers Proofs.SpecReal Proofs.HlaSpec.
(* High-Low average: the reading is the midpoint of the candle's high and low rounded to round_value
   decimals (within half a unit of the last decimal), and lies between low and high when those are on
   the rounding grid *)
Theorem C05_hla_is_rounded_midpoint :
  forall (nd : Z) (s : state ROps) (c : inp ROps),
  hla_step ROps nd s c = Ok (@VNum ROps (rnd10 nd ((x_h ROps c + x_l ROps c) / 2)), s) /\
  Rabs (rnd10 nd ((x_h ROps c + x_l ROps c) / 2) - (x_h ROps c + x_l ROps c) / 2) <= eps nd.
Proof. exact hla_is_rounded_midpoint. Qed.
Print Assumptions C05_hla_is_rounded_midpoint.

Theorem C05_hla_between_low_and_high :
  forall (nd : Z) (s : state ROps) (c : inp ROps),
  generic_format radix10 (FIX_exp (- nd)) (x_l ROps c) -> generic_format radix10 (FIX_exp (- nd)) (x_h ROps c) ->
  x_l ROps c <= x_h ROps c ->
  exists r, hla_step ROps nd s c = Ok (@VNum ROps r, s) /\ x_l ROps c <= r <= x_h ROps c.
Proof. exact hla_between_low_and_high. Qed.
Print Assumptions C05_hla_between_low_and_high.
