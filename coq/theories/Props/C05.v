(* C05 - Volatility, range, channel and utility indicators match their definitions.
   Proved (recurrence specifications over the reals): true range and ATR.  The other
   indicators of this property are decided by the bit-exact engine correspondence and the
   reference falsifier; see the level note. *)
From Coq Require Import ZArith List String Bool Reals.
From Hexital Require Import Base.Prelude Base.Num Model.Candle Inst.RealInst Spec.Steppers Proofs.SpecReal.
Local Open Scope R_scope.

(* the true range dominates the candle's own range and both gap distances *)
Theorem C05_true_range_definition :
  forall (h l pc : R), l <= h ->
  h - l <= true_range ROps h l pc /\ 0 <= true_range ROps h l pc /\
  Rabs (h - pc) <= true_range ROps h l pc /\ Rabs (l - pc) <= true_range ROps h l pc.
Proof. exact true_range_bounds. Qed.
Print Assumptions C05_true_range_definition.

Theorem C05_tr_reading :
  forall (nd : Z) (s : state ROps) (c : inp ROps) pc, (0 <= nd)%Z ->
  x_l ROps c <= x_h ROps c -> s_a ROps s = Some pc ->
  exists r s', step ROps S_TR nd s c = Ok (VNum r, s') /\
    rnd10 nd (x_h ROps c - x_l ROps c) <= r /\ 0 <= r.
Proof. exact tr_reading_bounds. Qed.
Print Assumptions C05_tr_reading.

Theorem C05_atr_nonnegative :
  forall (p nd : Z) (s : state ROps) (c : inp ROps) pc pr, (0 < p)%Z ->
  x_l ROps c <= x_h ROps c -> s_a ROps s = Some pc -> s_prev ROps s = Some pr -> 0 <= pr ->
  exists r s', step ROps (S_ATR p) nd s c = Ok (VNum r, s') /\ 0 <= r.
Proof. exact atr_nonneg. Qed.
Print Assumptions C05_atr_nonnegative.
