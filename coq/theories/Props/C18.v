(* C18 - Timeframe bucketing does not depend on the process time zone.
   The model of the bucketing helpers (Model/Manager.v: rdown, on_tf, label and the collapse
   built on them) works on the naive wall-clock axis and has no zone parameter at all, so
   zone independence of the model is definitional (there is nothing to state).  What can be *proved* is why the
   mechanism matters: bucketing by way of the local-time <-> epoch conversion (what
   utils/timeframe.py did before the repair of finding F6) agrees with naive bucketing
   exactly when the zone offset is a multiple of the timeframe.  That the running code
   behaves like the zone-free model under every TZ value is established by the
   correspondence check executed under eight zones (the OS zone database is an oracle). *)
From Coq Require Import ZArith Lia.
From Hexital Require Import Base.Prelude Model.Manager.
Local Open Scope Z_scope.

(* round_down_timestamp by way of the epoch, for a zone with constant offset [off]:
   naive -> epoch subtracts the offset, epoch -> naive adds it *)
Definition rdown_via_epoch (off ts tf : Z) : Z := (ts - off) / tf * tf + off.
Definition on_tf_via_epoch (off ts tf : Z) : bool := (ts - off) mod tf =? 0.

Lemma rdown_via_epoch_multiple off ts tf : 0 < tf -> off mod tf = 0 -> rdown_via_epoch off ts tf = rdown ts tf.
Proof.
  intros Htf H. unfold rdown_via_epoch, rdown.
  apply Z.mod_divide in H; [|lia]. destruct H as [k ->].
  replace (ts - k * tf) with (ts + (- k) * tf) by lia. rewrite Z.div_add by lia. lia.
Qed.

Theorem C18_epoch_bucketing_agrees_iff_offset_multiple :
  forall off tf, 0 < tf ->
  ((forall ts, rdown_via_epoch off ts tf = rdown ts tf) <-> off mod tf = 0).
Proof.
  intros off tf Htf. split.
  - intros H. specialize (H 0). unfold rdown_via_epoch, rdown in H.
    rewrite Z.div_0_l in H by lia.
    assert (E : off = - ((0 - off) / tf) * tf) by lia.
    rewrite E. apply Z.mod_mul. lia.
  - intros H ts. apply rdown_via_epoch_multiple; assumption.
Qed.
Print Assumptions C18_epoch_bucketing_agrees_iff_offset_multiple.

(* the pre-repair mechanism is refuted for a half-hour zone and hourly candles *)
Theorem C18_epoch_bucketing_refuted :
  exists off ts tf, 0 < tf /\ rdown_via_epoch off ts tf <> rdown ts tf.
Proof. exists 19800, 1685610000, 3600. split; [lia|]. vm_compute. discriminate. Qed.
Print Assumptions C18_epoch_bucketing_refuted.

(* the same for on_timeframe *)
Theorem C18_on_timeframe_agrees_if_offset_multiple :
  forall off tf ts, 0 < tf -> off mod tf = 0 -> on_tf_via_epoch off ts tf = on_tf ts tf.
Proof.
  intros off tf ts Htf H. unfold on_tf_via_epoch, on_tf.
  apply Z.mod_divide in H; [|lia]. destruct H as [k ->].
  replace (ts - k * tf) with (ts + (- k) * tf) by lia. rewrite Z.mod_add by lia. reflexivity.
Qed.
Print Assumptions C18_on_timeframe_agrees_if_offset_multiple.
