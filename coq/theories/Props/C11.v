(* C11 - Heikin-Ashi conversion follows its recurrence under every append schedule. *)
From Coq Require Import ZArith List Bool.
From Hexital Require Import Base.Prelude Base.Num Model.Manager Model.Candle Inst.ZInst Proofs.HAProofs Proofs.PipelineProofs Proofs.FillEngine Proofs.FillHA.
Import ListNotations.

(* Batch: converting a list of raw (untagged) candles yields the recurrence of the
   property text on the values, keeps the timestamps, tags every candle, keeps the raw
   values recoverable and clears the readings. *)
Theorem C11_recurrence_batch :
  forall (O : NumOps) (l : list (cd (payload O))), all_raw O l ->
  values O (convert O l) = ha_spec O None (values O l) /\
  map (@t _) (convert O l) = map (@t _) l /\
  all_tagged O (convert O l) /\
  Forall2 (fun c o => clean O (p o) = Some (cur O (p c)) /\ inds O (p o) = [] /\ subs O (p o) = [])
          l (convert O l).
Proof. exact convert_batch_spec. Qed.
Print Assumptions C11_recurrence_batch.

(* Incremental: converting, appending raw candles and converting again equals converting
   everything at once - from any number of already converted candles including zero or
   one; each candle is converted exactly once. *)
Theorem C11_incremental :
  forall (O : NumOps) (xs ys : list (cd (payload O))), all_raw O xs -> all_raw O ys ->
  convert O (convert O xs ++ ys) = convert O (xs ++ ys).
Proof. exact convert_incremental. Qed.
Print Assumptions C11_incremental.

(* the converted value of a candle depends only on it and the candles before it *)
Theorem C11_prefix_stable :
  forall (O : NumOps) (xs ys : list (cd (payload O))), all_raw O xs -> all_raw O ys ->
  exists tl, convert O (xs ++ ys) = convert O xs ++ tl.
Proof. exact convert_prefix_stable. Qed.
Print Assumptions C11_prefix_stable.

(* a raw candle merged into a converted bucket is merged into its raw values *)
Theorem C11_merge_recovers_raw :
  forall (O : NumOps) prev (q b : payload O), clean O q = None ->
  merge O (convert_one O prev q) b = merge O q b.
Proof. exact merge_converted. Qed.
Print Assumptions C11_merge_recovers_raw.

(* the resume index before the repair of finding F4 skipped everything when only candle 0
   was converted: with one tagged and one raw candle it answered 2 (= convert nothing) *)
Theorem C11_old_resume_index_refuted :
  exists (l : list (cd (payload ZOps))),
    find_conv_index_old ZOps l = 2%nat /\ find_conv_index ZOps l = 1%nat.
Proof.
  exists [Build_cd 0%Z (Build_payload ZOps (Build_ohlcv ZOps 1 1 1 1 1)%Z None true [] []);
          Build_cd 1%Z (Build_payload ZOps (Build_ohlcv ZOps 1 1 1 1 1)%Z None false [] [])].
  split; reflexivity.
Qed.
Print Assumptions C11_old_resume_index_refuted.

(* composed with a collapsing timeframe: the whole manager pipeline (collapse, then convert
   from the resume index) under appends.  D is the manager's state after the raw stream xs;
   appending ys re-collapses D ++ ys - converted buckets followed by raw candles - and
   converts again; the result is the pipeline over the whole raw stream.  pristine: the
   incoming candles carry no conversion of their own. *)
Theorem C11_timeframe_pipeline_incremental :
  forall (O : NumOps) (tf : Z) (xs ys D : list (cd (payload O))),
  (0 < tf)%Z -> sorted (payload O) (xs ++ ys) -> pristine O (xs ++ ys) ->
  tasks O (tf_ha_cfg tf) xs = Ok D ->
  mgr_append O (tf_ha_cfg tf) D ys = tasks O (tf_ha_cfg tf) (xs ++ ys).
Proof. intros O tf xs ys D Htf Hs Hp HD. eapply manager_incremental; eassumption. Qed.
Print Assumptions C11_timeframe_pipeline_incremental.

(* ... and with gap filling between the collapse and the conversion (collapse, fill, convert) *)
Theorem C11_timeframe_fill_pipeline_incremental :
  forall (O : NumOps) (tf : Z) (xs ys D : list (cd (payload O))),
  (0 < tf)%Z -> sorted (payload O) (xs ++ ys) -> pristine O (xs ++ ys) ->
  tasks O (tf_fill_ha_cfg tf) xs = Ok D ->
  mgr_append O (tf_fill_ha_cfg tf) D ys = tasks O (tf_fill_ha_cfg tf) (xs ++ ys).
Proof. intros O tf xs ys D Htf Hs Hp HD. eapply manager_fill_ha_incremental; eassumption. Qed.
Print Assumptions C11_timeframe_fill_pipeline_incremental.
