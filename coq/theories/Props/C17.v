(* C17 - Movement, candle-shape and pattern predicates mean what they document.
   Proved: candle geometry over the reals and its invariance under positive scaling and
   shifting (the quantities every pattern clause compares); above/below are strict and
   never true on a missing reading; crossover/crossunder = above/below now and the
   opposite one candle earlier.  The windowed functions' documented meaning and the
   pattern witnesses are decided by the reference falsifier and the bit-exact
   correspondence of Model/Analysis.v. *)
From Coq Require Import ZArith List String Bool Reals.
From Hexital Require Import Base.Prelude Base.Num Model.Manager Model.Candle Model.Readings Model.Analysis
  Inst.RealInst Proofs.AnalysisProofs Proofs.GeometryReal.
Import ListNotations.

Theorem C17_candle_geometry :
  forall (x : ohlcv ROps), wf_candle x ->
  c_realbody ROps x = Rabs (c_open ROps x - c_close ROps x) /\
  c_shadow_upper ROps x = (c_high ROps x - Rmax (c_open ROps x) (c_close ROps x))%R /\
  c_shadow_lower ROps x = (Rmin (c_open ROps x) (c_close ROps x) - c_low ROps x)%R /\
  c_high_low ROps x = (c_high ROps x - c_low ROps x)%R /\
  (c_positive ROps x = true <-> (c_open ROps x < c_close ROps x)%R) /\
  (c_negative ROps x = true <-> (c_close ROps x < c_open ROps x)%R).
Proof. exact geometry. Qed.
Print Assumptions C17_candle_geometry.

Theorem C17_geometry_scale_invariant :
  forall (k : R) (x : ohlcv ROps), (0 < k)%R ->
  c_realbody ROps (scale k x) = (k * c_realbody ROps x)%R /\
  c_shadow_upper ROps (scale k x) = (k * c_shadow_upper ROps x)%R /\
  c_shadow_lower ROps (scale k x) = (k * c_shadow_lower ROps x)%R /\
  c_high_low ROps (scale k x) = (k * c_high_low ROps x)%R /\
  c_positive ROps (scale k x) = c_positive ROps x /\ c_negative ROps (scale k x) = c_negative ROps x.
Proof. exact geometry_scale. Qed.
Print Assumptions C17_geometry_scale_invariant.

Theorem C17_geometry_shift_invariant :
  forall (d : R) (x : ohlcv ROps),
  c_realbody ROps (shift d x) = c_realbody ROps x /\
  c_shadow_upper ROps (shift d x) = c_shadow_upper ROps x /\
  c_shadow_lower ROps (shift d x) = c_shadow_lower ROps x /\
  c_high_low ROps (shift d x) = c_high_low ROps x /\
  c_positive ROps (shift d x) = c_positive ROps x /\ c_negative ROps (shift d x) = c_negative ROps x.
Proof. exact geometry_shift. Qed.
Print Assumptions C17_geometry_shift_invariant.

Theorem C17_above_below_strict_and_missing_is_false :
  forall (O : NumOps) (cs : list (cd (payload O))) a b i r1 r2, cs <> [] ->
  reading_by_index O cs a i = Ok r1 -> reading_by_index O cs b i = Ok r2 ->
  (is_none O r1 || is_none O r2 = true -> above_b O cs a b i = Ok false /\ below_b O cs a b i = Ok false) /\
  (forall x y, r1 = VNum x -> r2 = VNum y ->
     above_b O cs a b i = Ok (nltb O y x) /\ below_b O cs a b i = Ok (nltb O x y)).
Proof. exact above_below_meaning. Qed.
Print Assumptions C17_above_below_strict_and_missing_is_false.

Theorem C17_cross_is_above_now_below_before :
  forall (O : NumOps) (cs : list (cd (payload O))) a b i, (1 <= i < zlen cs)%Z ->
  mv_crossover O cs a b 1 i =
    (x <- above_b O cs a b i ;; if negb x then Ok (VBool false) else y <- below_b O cs a b (i - 1) ;; Ok (VBool y)) /\
  mv_crossunder O cs a b 1 i =
    (x <- below_b O cs a b i ;; if negb x then Ok (VBool false) else y <- above_b O cs a b (i - 1) ;; Ok (VBool y)).
Proof. exact cross_meaning. Qed.
Print Assumptions C17_cross_is_above_now_below_before.
