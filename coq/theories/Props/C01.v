(* C01 - Incremental appends give exactly the batch result (schedule independence).
   Proved for the faithful engine of Model/Engine.v (resume index, skip-if-present, in-place
   set_reading) for every leaf indicator whose _calculate_reading is pure and causal - on
   the base timeframe for any chunking, and on a collapsing timeframe (re-collapse of the
   calculated buckets followed by the new raw candles, then calculate) - and those two
   obligations are discharged for HLA, TR, OBV, EMA, SMA, RMA, WMA, VWMA, ROC, Counter, HL, Donchian, AROON and every
   Amorph-wrapped analysis function (any period >= 1, any input whose lookup does not read
   the indicator's own slot).  For the other indicators and composite ones the property is
   decided by the bit-exact correspondence and the falsifier. *)
From Coq Require Import ZArith List String Bool.
From Hexital Require Import Base.Prelude Base.Num Inst.ZInst Model.Manager Model.Candle Model.Readings Model.Engine
  Proofs.EngineProofs Proofs.CausalProofs Proofs.AnalysisProofs Proofs.ComposeProofs Proofs.PipelineProofs Proofs.ComposeHA Proofs.CausalMore Proofs.CausalWin Proofs.CompositeProofs Proofs.AtrCompose Proofs.FillCompose Proofs.FillEngine Proofs.FillHA Proofs.FillHAEngine Proofs.DataSlot Proofs.DataInst Proofs.DataThms Proofs.CompositeData Proofs.ThresCompose Model.Analysis.
Import ListNotations.
Local Open Scope Z_scope.

(* the generic statement: any split of a stream of fresh candles into append chunks, fed to
   an empty indicator through calculate() after each chunk, ends in exactly the store that
   one calculate() over the whole stream produces - same candles, same readings, or the
   same exception *)
Theorem C01_schedule_independence_leaf :
  forall (O : NumOps) (I : ind O) (calc : store O -> Z -> res (val O)),
  i_subs O I = [] /\ i_managed O I = [] ->
  (forall rec st i, calc_reading O rec I st i = (v <- calc st i ;; Ok (v, st))) ->
  Causal O I calc ->
  forall chunks : list (list (cd (payload O))), Forall (Forall (fresh O I)) chunks ->
  engine_chunks O I [] chunks = calculate O I (List.concat chunks).
Proof. intros O I calc Hl Hp Hc chunks Hf. eapply engine_incremental_equals_batch; eassumption. Qed.
Print Assumptions C01_schedule_independence_leaf.

(* ... into a pre-loaded (already calculated) indicator as well *)
Theorem C01_append_to_calculated_leaf :
  forall (O : NumOps) (I : ind O) (calc : store O -> Z -> res (val O)),
  i_subs O I = [] /\ i_managed O I = [] ->
  (forall rec st i, calc_reading O rec I st i = (v <- calc st i ;; Ok (v, st))) ->
  Causal O I calc ->
  forall (cs : store O) (new : list (cd (payload O))), IsCanon O I calc cs -> Forall (fresh O I) new ->
  calculate O I (cs ++ new) = canon_acc O I calc cs new.
Proof.
  intros O I calc Hl Hp Hc cs new Hcs Hf. rewrite (calculate_is_leaf O I Hl calc Hp). apply append_is_canon; assumption.
Qed.
Print Assumptions C01_append_to_calculated_leaf.

(* the obligations hold for these indicators *)
Theorem C01_obligations_HLA : forall (O : NumOps) (I : ind O), i_kind O I = K_HLA ->
  (forall rec st i, calc_reading O rec I st i = (v <- pure_calc O I st i ;; Ok (v, st))) /\ Causal O I (pure_calc O I).
Proof. intros O I K. split; [intros; apply hla_pure; exact K|apply hla_causal; exact K]. Qed.
Print Assumptions C01_obligations_HLA.

Theorem C01_obligations_TR : forall (O : NumOps) (I : ind O), i_kind O I = K_TR ->
  (forall rec st i, calc_reading O rec I st i = (v <- pure_calc O I st i ;; Ok (v, st))) /\ Causal O I (pure_calc O I).
Proof. intros O I K. split; [intros; apply tr_pure; exact K|apply tr_causal; exact K]. Qed.
Print Assumptions C01_obligations_TR.

Theorem C01_obligations_OBV : forall (O : NumOps) (I : ind O), i_kind O I = K_OBV ->
  (forall rec st i, calc_reading O rec I st i = (v <- pure_calc O I st i ;; Ok (v, st))) /\ Causal O I (pure_calc O I).
Proof. intros O I K. split; [intros; apply obv_pure; exact K|apply obv_causal; exact K]. Qed.
Print Assumptions C01_obligations_OBV.

Theorem C01_obligations_EMA : forall (O : NumOps) (I : ind O) period input smoothing,
  i_kind O I = K_EMA period input smoothing -> 1 <= period -> stable O I input ->
  (forall rec st i, calc_reading O rec I st i = (v <- pure_calc O I st i ;; Ok (v, st))) /\ Causal O I (pure_calc O I).
Proof.
  intros O I period input sm K Hp Hs. split; [intros; eapply ema_pure; exact K|eapply ema_causal; eassumption].
Qed.
Print Assumptions C01_obligations_EMA.

(* SMA reads input[index - period] once it has a previous reading; that look-back stays inside
   the list (instead of wrapping around to the newest candles) only because, on a canonical
   store, readings exist from index period-1 on - the invariant is part of the proof *)
Theorem C01_obligations_SMA : forall (O : NumOps) (I : ind O) period input,
  i_kind O I = K_SMA period input -> 1 <= period -> stable O I input -> i_sub O I = false ->
  (has_dot (i_name O I) = false /\ forall q, candle_attr O q (i_name O I) = None) ->
  (forall rec st i, calc_reading O rec I st i = (v <- pure_calc O I st i ;; Ok (v, st))) /\ Causal O I (pure_calc O I).
Proof.
  intros O I period input K Hp Hs Ht Hn. split; [intros; eapply sma_pure; exact K|eapply sma_causal; eassumption].
Qed.
Print Assumptions C01_obligations_SMA.

(* every pattern / movement function wrapped as an indicator (Amorph): causality is C16's
   truncation theorem plus the fact that the function sees a candle only through its OHLCV
   and the readings it names *)
Theorem C01_obligations_AMORPH : forall (O : NumOps) (I : ind O) (f : afun),
  i_kind O I = K_AMORPH f -> wf_afun f = true -> (forall n, In n (names_of f) -> stable O I n) ->
  (forall rec st i, calc_reading O rec I st i = (v <- pure_calc O I st i ;; Ok (v, st))) /\ Causal O I (pure_calc O I).
Proof.
  intros O I f K Hw Hs. split; [intros; eapply amorph_pure; exact K|eapply amorph_causal; eassumption].
Qed.
Print Assumptions C01_obligations_AMORPH.

(* collapsing timeframes: an indicator whose candles are the collapse of a raw stream.  After
   the stream so far (xs) its store is D; appending ys re-collapses D ++ ys (the calculated
   buckets followed by the raw new candles, exactly what CandleManager.append/resample do)
   and calculates.  The result is the batch result on the resampled whole stream: the open
   last bucket is reset by the merge, hence recomputed; closed buckets keep their readings *)
Theorem C01_append_on_timeframe :
  forall (O : NumOps) (I : ind O) (calc : store O -> Z -> res (val O)),
  i_subs O I = [] /\ i_managed O I = [] ->
  (forall rec st i, calc_reading O rec I st i = (v <- calc st i ;; Ok (v, st))) ->
  Causal O I calc ->
  forall (tf : Z) (xs ys : list (cd (payload O))) (D : store O),
  0 < tf -> sorted (payload O) (xs ++ ys) -> Forall (fresh O I) (xs ++ ys) ->
  canon O I calc (resample (payload O) (Candle.merge O) tf xs) = Ok D ->
  exists M, collapse (payload O) (Candle.merge O) tf (D ++ ys) = Ok M /\
            calculate O I M = canon O I calc (resample (payload O) (Candle.merge O) tf (xs ++ ys)).
Proof. intros O I calc Hl Hp Hc tf xs ys D Htf Hs Hf HD. eapply append_on_timeframe; eassumption. Qed.
Print Assumptions C01_append_on_timeframe.

(* further indicators whose obligations are discharged: Counter and RMA directly, ROC and WMA
   with the warm-up invariant (a previous reading exists only from the warm-up index on, so
   input[index - period] never wraps around to the newest candles) *)
Theorem C01_obligations_COUNTER : forall (O : NumOps) (I : ind O) input cv,
  i_kind O I = K_COUNTER input cv -> stable O I input ->
  (forall rec st i, calc_reading O rec I st i = (v <- pure_calc O I st i ;; Ok (v, st))) /\ Causal O I (pure_calc O I).
Proof. intros O I input cv K Hs. split; [intros; eapply counter_pure; exact K|eapply counter_causal; eassumption]. Qed.
Print Assumptions C01_obligations_COUNTER.

Theorem C01_obligations_RMA : forall (O : NumOps) (I : ind O) period input,
  i_kind O I = K_RMA period input -> 1 <= period -> stable O I input ->
  (forall rec st i, calc_reading O rec I st i = (v <- pure_calc O I st i ;; Ok (v, st))) /\ Causal O I (pure_calc O I).
Proof. intros O I period input K Hp Hs. split; [intros; eapply rma_pure; exact K|eapply rma_causal; eassumption]. Qed.
Print Assumptions C01_obligations_RMA.

Theorem C01_obligations_ROC : forall (O : NumOps) (I : ind O) period input,
  i_kind O I = K_ROC period input -> 1 <= period -> stable O I input -> i_sub O I = false ->
  (has_dot (i_name O I) = false /\ forall q, candle_attr O q (i_name O I) = None) ->
  (forall rec st i, calc_reading O rec I st i = (v <- pure_calc O I st i ;; Ok (v, st))) /\ Causal O I (pure_calc O I).
Proof. intros O I period input K Hp Hs Ht Hn. split; [intros; eapply roc_pure; exact K|eapply roc_causal; eassumption]. Qed.
Print Assumptions C01_obligations_ROC.

Theorem C01_obligations_WMA : forall (O : NumOps) (I : ind O) period input,
  i_kind O I = K_WMA period input -> 1 <= period -> stable O I input -> i_sub O I = false ->
  (has_dot (i_name O I) = false /\ forall q, candle_attr O q (i_name O I) = None) ->
  (forall rec st i, calc_reading O rec I st i = (v <- pure_calc O I st i ;; Ok (v, st))) /\ Causal O I (pure_calc O I).
Proof. intros O I period input K Hp Hs Ht Hn. split; [intros; eapply wma_pure; exact K|eapply wma_causal; eassumption]. Qed.
Print Assumptions C01_obligations_WMA.

(* the window indicators call the movement functions highest/lowest(bar): their causality is
   C16's truncation theorem; VWMA needs the warm-up invariant like WMA.  With these every
   indicator class without helper series has its obligations discharged. *)
Theorem C01_obligations_HL : forall (O : NumOps) (I : ind O) period, i_kind O I = K_HL period ->
  (forall rec st i, calc_reading O rec I st i = (v <- pure_calc O I st i ;; Ok (v, st))) /\ Causal O I (pure_calc O I).
Proof. intros O I period K. split; [intros; eapply hl_pure; exact K|eapply hl_causal; exact K]. Qed.
Print Assumptions C01_obligations_HL.

Theorem C01_obligations_DONCHIAN : forall (O : NumOps) (I : ind O) period, i_kind O I = K_DONCHIAN period -> 1 <= period ->
  (forall rec st i, calc_reading O rec I st i = (v <- pure_calc O I st i ;; Ok (v, st))) /\ Causal O I (pure_calc O I).
Proof. intros O I period K Hp. split; [intros; eapply donchian_pure; exact K|eapply donchian_causal; eassumption]. Qed.
Print Assumptions C01_obligations_DONCHIAN.

Theorem C01_obligations_AROON : forall (O : NumOps) (I : ind O) period, i_kind O I = K_AROON period -> 0 <= period ->
  (forall rec st i, calc_reading O rec I st i = (v <- pure_calc O I st i ;; Ok (v, st))) /\ Causal O I (pure_calc O I).
Proof. intros O I period K Hp. split; [intros; eapply aroon_pure; exact K|eapply aroon_causal; eassumption]. Qed.
Print Assumptions C01_obligations_AROON.

Theorem C01_obligations_VWMA : forall (O : NumOps) (I : ind O) period,
  i_kind O I = K_VWMA period -> 1 <= period -> i_sub O I = false ->
  (has_dot (i_name O I) = false /\ forall q, candle_attr O q (i_name O I) = None) ->
  (forall rec st i, calc_reading O rec I st i = (v <- pure_calc O I st i ;; Ok (v, st))) /\ Causal O I (pure_calc O I).
Proof. intros O I period K Hp Ht Hn. split; [intros; eapply vwma_pure; exact K|eapply vwma_causal; eassumption]. Qed.
Print Assumptions C01_obligations_VWMA.

(* ... and with Heikin-Ashi conversion between the collapse and the indicator: D is the
   indicator's store after the raw stream xs (canonical readings over the converted
   buckets); appending ys runs the manager pipeline on D ++ ys and calculates; the result is
   the batch result over the converted buckets of the whole raw stream *)
Theorem C01_append_on_timeframe_ha :
  forall (O : NumOps) (I : ind O) (calc : store O -> Z -> res (val O)),
  i_subs O I = [] /\ i_managed O I = [] ->
  (forall rec st i, calc_reading O rec I st i = (v <- calc st i ;; Ok (v, st))) ->
  Causal O I calc ->
  forall (tf : Z) (xs ys : list (cd (payload O))) (D : store O),
  0 < tf -> sorted (payload O) (xs ++ ys) -> pristine O (xs ++ ys) -> Forall (fresh O I) (xs ++ ys) ->
  canon O I calc (convert O (resample (payload O) (Candle.merge O) tf xs)) = Ok D ->
  exists M, pipe O tf (D ++ ys) = Ok M /\
            calculate O I M = canon O I calc (convert O (resample (payload O) (Candle.merge O) tf (xs ++ ys))).
Proof. intros O I calc Hl Hp Hc tf xs ys D Htf Hs Hpr Hf HD. eapply append_on_timeframe_ha; eassumption. Qed.
Print Assumptions C01_append_on_timeframe_ha.

(* ---- a composite indicator: ATR over its own true-range helper series ----
   The generic statement (Proofs/CompositeProofs.v) is for a parent with a pure reading function
   and one leaf helper calculated before it; calculate() is then the helper's calculate followed
   by the parent's loop, and its specification is the parent's canonical readings over the
   helper's canonical readings of the whole stream.  For ATR all obligations are discharged
   (the helper reads high/low/close only; the parent reads the helper's series and its own
   previous reading).  Whenever one calculate() over the whole stream succeeds, every split of
   the stream into append chunks ends in exactly its result.  (If the batch raises, the chunked
   run raises too, possibly another exception: the batch runs the helper over the whole stream
   before the parent starts.) *)
Theorem C01_atr_incremental_equals_batch :
  forall (O : NumOps) (period : Z) (name : string) (rnd : Z), 1 <= period -> has_dot name = false ->
  forall (chunks : list (list (cd (payload O)))) (r : store O),
  Forall (Forall (fresh O (Pa O period name rnd))) chunks -> Forall (Forall (fresh O (Sb O name))) chunks ->
  calculate O (top O (K_ATR period) name rnd) (List.concat chunks) = Ok r ->
  engine_chunks O (top O (K_ATR period) name rnd) [] chunks = Ok r.
Proof. intros O period name rnd Hp Hn chunks r HP HS H. eapply atr_incremental_equals_batch; eassumption. Qed.
Print Assumptions C01_atr_incremental_equals_batch.

(* the premises are met by ordinary raw candles, and the conclusion is not vacuous: over Z,
   ATR(2) on four candles fed as 1 + 2 + 1 *)
Definition c01_mk ts o h l c : cd (payload ZOps) := Build_cd ts (raw_payload ZOps (Build_ohlcv ZOps o h l c 10)).
Definition c01_a1 := c01_mk 60 10 14 8 12. Definition c01_a2 := c01_mk 120 12 18 11 16.
Definition c01_a3 := c01_mk 180 16 17 9 10. Definition c01_a4 := c01_mk 240 10 13 10 12.
Definition c01_A : ind ZOps := top ZOps (K_ATR 2) "ATR_2" 4.
Definition c01_atr_r : store ZOps :=
  Eval vm_compute in (match calculate ZOps c01_A [c01_a1; c01_a2; c01_a3; c01_a4] with Ok r => r | Err _ => [] end).
Example C01_atr_example :
  calculate ZOps c01_A [c01_a1; c01_a2; c01_a3; c01_a4] = Ok c01_atr_r /\
  engine_chunks ZOps c01_A [] [[c01_a1]; [c01_a2; c01_a3]; [c01_a4]] = Ok c01_atr_r /\
  map (fun c => alist_get "ATR_2" (inds ZOps (p c))) c01_atr_r = [Some VNone; Some VNone; Some (@VNum ZOps 7); Some (@VNum ZOps 5)].
Proof.
  split; [vm_cast_no_check (@eq_refl (res (store ZOps)) (Ok c01_atr_r))|].
  split; [vm_cast_no_check (@eq_refl (res (store ZOps)) (Ok c01_atr_r))|reflexivity].
Qed.

(* ... with gap filling: D is the indicator's store after the raw stream xs - canonical readings
   over the collapsed and filled series; appending ys re-collapses and re-fills D ++ ys and
   calculates; the result is the batch result over the collapsed and filled whole stream
   (closed buckets and the fill candles between them keep their readings, the open last bucket
   is reset by the merge and recomputed, new fill candles are fresh), and the manager raises
   exactly when the batch does *)
Theorem C01_append_on_filled_timeframe :
  forall (O : NumOps) (I : ind O) (calc : store O -> Z -> res (val O)),
  i_subs O I = [] /\ i_managed O I = [] ->
  (forall rec st i, calc_reading O rec I st i = (v <- calc st i ;; Ok (v, st))) ->
  Causal O I calc ->
  forall (tf : Z) (xs ys : list (cd (payload O))) (D : store O),
  0 < tf -> sorted (payload O) (xs ++ ys) -> Forall (fresh O I) (xs ++ ys) ->
  (exists F, cf (payload O) (Candle.merge O) (fillp O) tf xs = Ok F /\ canon O I calc F = Ok D) ->
  match cf (payload O) (Candle.merge O) (fillp O) tf (xs ++ ys) with
  | Ok G => exists M, cf (payload O) (Candle.merge O) (fillp O) tf (D ++ ys) = Ok M /\ calculate O I M = canon O I calc G
  | Err e => cf (payload O) (Candle.merge O) (fillp O) tf (D ++ ys) = Err e
  end.
Proof. intros O I calc Hl Hp Hc tf xs ys D Htf Hs Hf HD. eapply append_on_filled_timeframe; eassumption. Qed.
Print Assumptions C01_append_on_filled_timeframe.

(* ... and with gap filling and Heikin-Ashi together (every manager option but the lifespan):
   pipe3 = collapse, fill, convert from the resume index *)
Theorem C01_append_on_filled_converted_timeframe :
  forall (O : NumOps) (I : ind O) (calc : store O -> Z -> res (val O)),
  i_subs O I = [] /\ i_managed O I = [] ->
  (forall rec st i, calc_reading O rec I st i = (v <- calc st i ;; Ok (v, st))) ->
  Causal O I calc ->
  forall (tf : Z) (xs ys : list (cd (payload O))) (D : store O),
  0 < tf -> sorted (payload O) (xs ++ ys) -> pristine O (xs ++ ys) ->
  (exists F, cf (payload O) (Candle.merge O) (fillp O) tf xs = Ok F /\ canon O I calc (convert O F) = Ok D) ->
  match cf (payload O) (Candle.merge O) (fillp O) tf (xs ++ ys) with
  | Ok G => exists M, pipe3 O tf (D ++ ys) = Ok M /\ calculate O I M = canon O I calc (convert O G)
  | Err e => pipe3 O tf (D ++ ys) = Err e
  end.
Proof. intros O I calc Hl Hp Hc tf xs ys D Htf Hs Hpr HD. eapply append_on_filled_converted_timeframe; eassumption. Qed.
Print Assumptions C01_append_on_filled_converted_timeframe.

(* the states the two theorems speak about exist: SMA(2) over a five-minute timeframe with gap
   filling, four raw candles with a hole of two buckets; plain and under Heikin-Ashi *)
Local Open Scope string_scope.
Definition c01_I : ind ZOps := top ZOps (K_SMA 2 "close") "SMA_2" 4.
Definition c01_c (ts c : Z) : cd (payload ZOps) := {| t := ts; p := raw_payload ZOps (Build_ohlcv ZOps c c c c 1) |}.
Definition c01_xs := [c01_c 60 10; c01_c 120 11; c01_c 400 12; c01_c 1300 14].
Definition c01_F : list (cd (payload ZOps)) :=
  Eval vm_compute in (match cf (payload ZOps) (Candle.merge ZOps) (fillp ZOps) 300 c01_xs with Ok r => r | Err _ => [] end).
Definition c01_D : store ZOps :=
  Eval vm_compute in (match canon ZOps c01_I (pure_calc ZOps c01_I) c01_F with Ok r => r | Err _ => [] end).
Definition c01_D2 : store ZOps :=
  Eval vm_compute in (match canon ZOps c01_I (pure_calc ZOps c01_I) (convert ZOps c01_F) with Ok r => r | Err _ => [] end).
Example C01_filled_timeframe_example :
  (exists F, cf (payload ZOps) (Candle.merge ZOps) (fillp ZOps) 300 c01_xs = Ok F /\ canon ZOps c01_I (pure_calc ZOps c01_I) F = Ok c01_D) /\
  (exists F, cf (payload ZOps) (Candle.merge ZOps) (fillp ZOps) 300 c01_xs = Ok F /\ canon ZOps c01_I (pure_calc ZOps c01_I) (convert ZOps F) = Ok c01_D2) /\
  List.length c01_D = 5%nat /\
  map (fun c => alist_get "SMA_2" (inds ZOps (p c))) c01_D2 = [Some (@VNone ZOps); Some (@VNum ZOps 11); Some (@VNum ZOps 12); Some (@VNum ZOps 12); Some (@VNum ZOps 13)].
Proof.
  split; [exists c01_F; split; [vm_cast_no_check (@eq_refl (res (store ZOps)) (Ok c01_F))|vm_cast_no_check (@eq_refl (res (store ZOps)) (Ok c01_D))]|].
  split; [exists c01_F; split; [vm_cast_no_check (@eq_refl (res (store ZOps)) (Ok c01_F))|vm_cast_no_check (@eq_refl (res (store ZOps)) (Ok c01_D2))]|].
  split; reflexivity.
Qed.

(* indicators that keep their running state in one managed helper series "<name>_data" - VWAP
   (cumulative price*volume and volume), StandardDeviation (running mean and variance), RSI
   (Wilder averages of gain and loss): _calculate_reading writes the helper's slot of the same
   candle through Managed.set_reading, reads it back, and may write it a second time.  For these
   three classes (data_kind), built as the library builds them (data_node: no sub-indicators, the
   one managed helper, an ordinary helper name), over candles that do not already carry the two
   series (fresh_data): any split of the stream into append chunks ends in exactly the store - or
   the exception - of one calculate() over the whole stream.  Proofs/DataSlot.v is the engine
   theorem for this shape; the per-class obligation (the reading at index |a| of a ++ c :: rest is
   a function of the prefix and the candle, its only effect is the helper slot of c, a stored
   None reading is recomputed to the same candle) is discharged in Proofs/DataInst.v. *)
Theorem C01_schedule_independence_data_series_indicators :
  forall (O : NumOps) (I : ind O) (key : string), data_node O I key -> data_kind O I key ->
  forall chunks : list (list (cd (payload O))), Forall (Forall (fresh_data O I)) chunks ->
  engine_chunks O I [] chunks = calculate O I (List.concat chunks).
Proof. exact data_incremental_equals_batch. Qed.
Print Assumptions C01_schedule_independence_data_series_indicators.

Definition c01x_mk ts o h l c : cd (payload ZOps) := Build_cd ts (raw_payload ZOps (Build_ohlcv ZOps o h l c 10)).
Definition c01x_a1 := c01x_mk 60 10 14 8 12. Definition c01x_a2 := c01x_mk 120 12 18 11 16.
Definition c01x_a3 := c01x_mk 180 16 17 9 10. Definition c01x_a4 := c01x_mk 240 10 13 10 12.

(* the premises are met by the library's own constructors over raw candles; over Z: VWAP and RSI(2)
   on four candles fed as 1 + 2 + 1 *)
Definition c01_V : ind ZOps := top ZOps K_VWAP "VWAP" 4.
Definition c01_R : ind ZOps := top ZOps (K_RSI 2 "close") "RSI_2" 4.
Definition c01_vwap_r : store ZOps :=
  Eval vm_compute in (match calculate ZOps c01_V [c01x_a1; c01x_a2; c01x_a3; c01x_a4] with Ok r => r | Err _ => [] end).
Definition c01_rsi_r : store ZOps :=
  Eval vm_compute in (match calculate ZOps c01_R [c01x_a1; c01x_a2; c01x_a3; c01x_a4] with Ok r => r | Err _ => [] end).
Example C01_data_series_example :
  data_node ZOps c01_V "VWAP_data" /\ data_kind ZOps c01_V "VWAP_data" /\
  data_node ZOps c01_R "RSI_data" /\ data_kind ZOps c01_R "RSI_data" /\
  Forall (fresh_data ZOps c01_V) [c01x_a1; c01x_a2; c01x_a3; c01x_a4] /\ Forall (fresh_data ZOps c01_R) [c01x_a1; c01x_a2; c01x_a3; c01x_a4] /\
  engine_chunks ZOps c01_V [] [[c01x_a1]; [c01x_a2; c01x_a3]; [c01x_a4]] = Ok c01_vwap_r /\
  engine_chunks ZOps c01_R [] [[c01x_a1]; [c01x_a2; c01x_a3]; [c01x_a4]] = Ok c01_rsi_r /\
  map (fun c => alist_get "VWAP" (inds ZOps (p c))) c01_vwap_r = [Some (@VNum ZOps 11); Some (@VNum ZOps 13); Some (@VNum ZOps 12); Some (@VNum ZOps 12)] /\
  map (fun c => alist_get "RSI_2" (inds ZOps (p c))) c01_rsi_r = [Some VNone; Some VNone; Some (@VNum ZOps 0); Some (@VNum ZOps 67)].
Proof.
  split; [apply top_vwap_node; [reflexivity|intros q; reflexivity]|].
  split; [left; split; reflexivity|].
  split; [apply top_rsi_node; [reflexivity|intros q; reflexivity]|].
  split. { right; right. exists 2, "close"%string. repeat split; try reflexivity; try (cbv; discriminate).
           - apply stable_close. - apply stable_close. }
  split; [repeat constructor|]. split; [repeat constructor|].
  split; [vm_cast_no_check (@eq_refl (res (store ZOps)) (Ok c01_vwap_r))|].
  split; [vm_cast_no_check (@eq_refl (res (store ZOps)) (Ok c01_rsi_r))|].
  split; reflexivity.
Qed.

(* ... and on a collapsing timeframe: the state after the raw stream xs is Dst (one calculate() over
   resample tf xs, which is what any earlier schedule ends in by the same theorem); appending ys
   re-collapses Dst ++ ys - calculated buckets followed by raw candles - and calculates; the result
   is the batch result over the resampled whole stream: a bucket that takes in a candle is rebuilt
   by merge, which resets the reading and the helper entry, so the running sums / averages restart
   from the previous closed bucket exactly as in the batch run *)
Theorem C01_data_series_append_on_timeframe :
  forall (O : NumOps) (I : ind O) (key : string), data_node O I key -> data_kind O I key ->
  forall (tf : Z) (xs ys : list (cd (payload O))) (Dst : store O),
  0 < tf -> sorted (payload O) (xs ++ ys)%list -> Forall (fresh_data O I) (xs ++ ys)%list ->
  calculate O I (resample (payload O) (Candle.merge O) tf xs) = Ok Dst ->
  exists Mst, collapse (payload O) (Candle.merge O) tf (Dst ++ ys)%list = Ok Mst /\
              calculate O I Mst = calculate O I (resample (payload O) (Candle.merge O) tf (xs ++ ys)%list).
Proof. exact data_append_on_timeframe. Qed.
Print Assumptions C01_data_series_append_on_timeframe.

(* a composite over such a helper: StandardDeviationThreshold reads the StandardDeviation helper
   "<name>_stdev", which keeps its running mean and variance in "<name>_stdev_data".  calculate() =
   the helper's calculate() through the recursive entry point, then the parent's loop; the helper's
   canonical decoration survives the parent's writes (its values do not depend on the parent's
   entries) and its new candles behind a decorated prefix are those behind the plain one
   (Proofs/CompositeData.v, Proofs/ThresCompose.v).  Whenever one calculate() over the whole stream
   succeeds, every split of the stream into append chunks ends in exactly its result. *)
Theorem C01_stdevthres_incremental_equals_batch :
  forall (O : NumOps) (period : Z) (mult : num O) (input name : string) (rnd : Z),
  1 <= period -> has_dot name = false ->
  (forall q, candle_attr O q (sdn name ++ "_data")%string = None) ->
  stable O (Pt O period mult input name rnd) input -> stable O (St O period input name) input ->
  stable O (dataM O (St O period input name)) input ->
  forall (chunks : list (list (cd (payload O)))) (r : store O),
  Forall (Forall (fresh_thres O period mult input name rnd)) chunks ->
  calculate O (Pt O period mult input name rnd) (List.concat chunks) = Ok r ->
  engine_chunks O (Pt O period mult input name rnd) [] chunks = Ok r.
Proof. intros O period mult input name rnd Hp Hn Ha H1 H2 H3. apply thres_incremental_equals_batch; assumption. Qed.
Print Assumptions C01_stdevthres_incremental_equals_batch.

Definition c01t_mk ts o h l c : cd (payload ZOps) := Build_cd ts (raw_payload ZOps (Build_ohlcv ZOps o h l c 10)).
Definition c01t_a1 := c01t_mk 60 10 14 8 12. Definition c01t_a2 := c01t_mk 120 12 18 11 16.
Definition c01t_a3 := c01t_mk 180 16 17 9 10. Definition c01t_a4 := c01t_mk 240 10 13 10 12.
Definition c01t_mult : num ZOps := 1%Z.
Definition c01_T : ind ZOps := top ZOps (@K_STDEVTHRES ZOps 2 c01t_mult "close") "ST" 4.
Definition c01_thres_r : store ZOps :=
  Eval vm_compute in (match calculate ZOps c01_T [c01t_a1; c01t_a2; c01t_a3; c01t_a4] with Ok r => r | Err _ => [] end).
Example C01_stdevthres_example :
  c01_T = Pt ZOps 2 c01t_mult "close" "ST" 4 /\
  Forall (fresh_thres ZOps 2 c01t_mult "close" "ST" 4) [c01t_a1; c01t_a2; c01t_a3; c01t_a4] /\
  calculate ZOps c01_T [c01t_a1; c01t_a2; c01t_a3; c01t_a4] = Ok c01_thres_r /\
  engine_chunks ZOps c01_T [] [[c01t_a1]; [c01t_a2; c01t_a3]; [c01t_a4]] = Ok c01_thres_r /\
  map (fun c => alist_get "ST" (inds ZOps (p c))) c01_thres_r = [Some (VBool false); Some (VBool false); Some (VBool true); Some (VBool true)].
Proof.
  split; [reflexivity|]. split; [repeat constructor|].
  split; [vm_cast_no_check (@eq_refl (res (store ZOps)) (Ok c01_thres_r))|].
  split; [vm_cast_no_check (@eq_refl (res (store ZOps)) (Ok c01_thres_r))|reflexivity].
Qed.

