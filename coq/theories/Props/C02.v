(* C02 - Readings of closed candles are final: no look-ahead, no repainting.
   Same scope as C01 (leaf indicators; obligations discharged in Props/C01.v for all fourteen
   indicator classes without helper series, every Amorph-wrapped analysis function included): the store
   after any further appends extends the store before them, a batch over a longer list gives
   the shorter list's readings on the shorter list's candles, and on a collapsing timeframe
   every closed bucket keeps its readings when more candles arrive. *)
From Coq Require Import ZArith List String Bool.
From Hexital Require Import Base.Prelude Base.Num Model.Manager Model.Candle Model.Readings Model.Engine
  Proofs.EngineProofs Proofs.CausalProofs Proofs.ComposeProofs Proofs.CompositeProofs Proofs.AtrCompose Proofs.FillCompose Proofs.FillEngine Proofs.DataSlot Proofs.DataInst Proofs.DataThms Proofs.CompositeData Proofs.ThresCompose.
Import ListNotations.
Local Open Scope Z_scope.

(* batch causality: calculate() over ds ++ more agrees with calculate() over ds on the
   candles of ds (it extends it) *)
Theorem C02_batch_is_causal_leaf :
  forall (O : NumOps) (I : ind O) (calc : store O -> Z -> res (val O)),
  i_subs O I = [] /\ i_managed O I = [] ->
  (forall rec st i, calc_reading O rec I st i = (v <- calc st i ;; Ok (v, st))) ->
  Causal O I calc ->
  forall (ds more : list (cd (payload O))) r, Forall (fresh O I) (ds ++ more) ->
  calculate O I (ds ++ more) = Ok r ->
  exists mid tl, calculate O I ds = Ok mid /\ r = mid ++ tl.
Proof.
  intros O I calc Hl Hp Hc ds more r Hf H.
  rewrite (engine_batch_is_canon O I Hl calc Hp Hc) in H by assumption.
  destruct (prefix_stable O I calc ds more r Hf H) as (mid & tl & Hm & Hr).
  exists mid, tl. split; [|exact Hr].
  rewrite (engine_batch_is_canon O I Hl calc Hp Hc); [exact Hm|].
  apply Forall_app in Hf. tauto.
Qed.
Print Assumptions C02_batch_is_causal_leaf.

(* no repainting on live appends: appending to a calculated indicator leaves every existing
   candle - readings included - exactly as it was *)
Theorem C02_append_never_repaints_leaf :
  forall (O : NumOps) (I : ind O) (calc : store O -> Z -> res (val O)),
  i_subs O I = [] /\ i_managed O I = [] ->
  (forall rec st i, calc_reading O rec I st i = (v <- calc st i ;; Ok (v, st))) ->
  Causal O I calc ->
  forall (cs : store O) (new : list (cd (payload O))) r, IsCanon O I calc cs -> Forall (fresh O I) new ->
  calculate O I (cs ++ new) = Ok r -> exists tl, r = cs ++ tl.
Proof.
  intros O I calc Hl Hp Hc cs new r Hcs Hf H.
  rewrite (calculate_is_leaf O I Hl calc Hp) in H. rewrite append_is_canon in H by assumption.
  destruct (canon_acc_iscanon O I calc new cs r Hcs Hf H) as [_ Htl]. exact Htl.
Qed.
Print Assumptions C02_append_never_repaints_leaf.

(* collapsing timeframe: D is the indicator's state after the raw stream xs, D' after
   xs ++ ys.  Every bucket of D except the last - the only one that can still take in
   candles - appears unchanged, readings included, at the same position in D' *)
Theorem C02_closed_buckets_final :
  forall (O : NumOps) (I : ind O) (calc : store O -> Z -> res (val O)),
  forall (tf : Z) (xs ys : list (cd (payload O))) (D D' : store O), 0 < tf ->
  canon O I calc (resample (payload O) (Candle.merge O) tf xs) = Ok D ->
  canon O I calc (resample (payload O) (Candle.merge O) tf (xs ++ ys)) = Ok D' ->
  exists tl, D' = removelast D ++ tl.
Proof. intros O I calc tf xs ys D D' Htf HD HD'. eapply closed_buckets_final; eassumption. Qed.
Print Assumptions C02_closed_buckets_final.

(* a composite indicator: ATR over its true-range helper (see C01_atr_incremental_equals_batch):
   a successful calculate() over ds ++ more extends calculate() over ds *)
Theorem C02_atr_batch_is_causal :
  forall (O : NumOps) (period : Z) (name : string) (rnd : Z), 1 <= period -> has_dot name = false ->
  forall (ds more : list (cd (payload O))) (r : store O),
  Forall (fresh O (Pa O period name rnd)) (ds ++ more) -> Forall (fresh O (Sb O name)) (ds ++ more) ->
  calculate O (top O (K_ATR period) name rnd) (ds ++ more) = Ok r ->
  exists mid tl, calculate O (top O (K_ATR period) name rnd) ds = Ok mid /\ r = mid ++ tl.
Proof. intros O period name rnd Hp Hn ds more r HP HS H. eapply atr_batch_is_causal; eassumption. Qed.
Print Assumptions C02_atr_batch_is_causal.

(* ... on a filled collapsing timeframe: D is the state after the raw stream xs - canonical
   readings over the collapsed and filled series - and D' the state after xs ++ ys.  Every candle
   of D except the last - closed buckets and the fill candles between them, readings included -
   appears unchanged at the same position in D' *)
Theorem C02_closed_buckets_final_with_fill :
  forall (O : NumOps) (I : ind O) (calc : store O -> Z -> res (val O)),
  forall (tf : Z) (xs ys : list (cd (payload O))) (D D' : store O), 0 < tf -> sorted (payload O) (xs ++ ys) ->
  (exists F, cf (payload O) (Candle.merge O) (fillp O) tf xs = Ok F /\ canon O I calc F = Ok D) ->
  (exists G, cf (payload O) (Candle.merge O) (fillp O) tf (xs ++ ys) = Ok G /\ canon O I calc G = Ok D') ->
  exists tl, D' = removelast D ++ tl.
Proof. intros O I calc tf xs ys D D' Htf Hs HD HD'. eapply filled_closed_buckets_final; eassumption. Qed.
Print Assumptions C02_closed_buckets_final_with_fill.

(* the same two statements for the indicators that keep their state in one managed helper series
   (VWAP, StandardDeviation, RSI; see C01_schedule_independence_data_series_indicators): one
   calculate() over a longer stream extends the result over the shorter one, and appending to a
   calculated indicator never changes an existing candle - its readings and the helper's *)
Theorem C02_data_series_batch_is_causal :
  forall (O : NumOps) (I : ind O) (key : string), data_node O I key -> data_kind O I key ->
  forall (ds more : list (cd (payload O))) (r : store O), Forall (fresh_data O I) (ds ++ more) ->
  calculate O I (ds ++ more) = Ok r -> exists mid tl, calculate O I ds = Ok mid /\ r = mid ++ tl.
Proof. exact data_batch_is_causal. Qed.
Print Assumptions C02_data_series_batch_is_causal.

Theorem C02_data_series_append_keeps_calculated_candles :
  forall (O : NumOps) (I : ind O) (key : string), data_node O I key -> data_kind O I key ->
  forall (ds new : list (cd (payload O))) (st r : store O), Forall (fresh_data O I) ds -> Forall (fresh_data O I) new ->
  calculate O I ds = Ok st -> calculate O I (st ++ new) = Ok r -> exists tl, r = st ++ tl.
Proof. exact data_append_keeps_prefix. Qed.
Print Assumptions C02_data_series_append_keeps_calculated_candles.

(* on a collapsing timeframe every bucket but the last (open) one keeps its reading and its helper entry *)
Theorem C02_data_series_closed_buckets_final :
  forall (O : NumOps) (I : ind O) (key : string), data_node O I key -> data_kind O I key ->
  forall (tf : Z) (xs ys : list (cd (payload O))) (Dst D' : store O),
  0 < tf -> Forall (fresh_data O I) (xs ++ ys) ->
  calculate O I (resample (payload O) (Candle.merge O) tf xs) = Ok Dst ->
  calculate O I (resample (payload O) (Candle.merge O) tf (xs ++ ys)) = Ok D' ->
  exists tl, D' = removelast Dst ++ tl.
Proof. exact data_closed_buckets_final. Qed.
Print Assumptions C02_data_series_closed_buckets_final.

(* no look-ahead for the composite: one calculate() over a longer stream extends the result over the shorter one *)
Theorem C02_stdevthres_batch_is_causal :
  forall (O : NumOps) (period : Z) (mult : num O) (input name : string) (rnd : Z),
  1 <= period -> has_dot name = false ->
  (forall q, candle_attr O q (sdn name ++ "_data")%string = None) ->
  stable O (Pt O period mult input name rnd) input -> stable O (St O period input name) input ->
  stable O (dataM O (St O period input name)) input ->
  forall (ds more : list (cd (payload O))) (r : store O),
  Forall (fresh_thres O period mult input name rnd) (ds ++ more) ->
  calculate O (Pt O period mult input name rnd) (ds ++ more) = Ok r ->
  exists mid tl, calculate O (Pt O period mult input name rnd) ds = Ok mid /\ r = mid ++ tl.
Proof. intros O period mult input name rnd Hp Hn Ha H1 H2 H3. apply thres_batch_is_causal; assumption. Qed.
Print Assumptions C02_stdevthres_batch_is_causal.

