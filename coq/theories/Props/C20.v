(* C20 - All ways of asking for a reading give the same answer. *)
From Coq Require Import ZArith List String Bool.
From Hexital Require Import Base.Prelude Base.Num Model.Manager Model.Candle Model.Readings Model.Engine
  Model.Access Proofs.ListProofs Proofs.AccessProofs.
Import ListNotations.
Local Open Scope Z_scope.

(* positive and negative indices address the same candle, for every name (plain or dotted) *)
Theorem C20_negative_index_same_candle :
  forall (O : NumOps) (st : list (cd (payload O))) (name : string) (i : Z),
  0 <= i < zlen st -> reading O st name (i - zlen st) = reading O st name i.
Proof. exact reading_neg. Qed.
Print Assumptions C20_negative_index_same_candle.

(* the lookup used by Hexital.reading and the analysis functions agrees with Indicator.reading
   on every valid index, and answers None (never an exception) on an invalid one *)
Theorem C20_reading_by_index_agrees :
  forall (O : NumOps) (st : list (cd (payload O))) (name : string) (i : Z),
  (valid_index i (zlen st) = true -> reading_by_index O st name i = reading O st name i) /\
  (valid_index i (zlen st) = false -> reading_by_index O st name i = Ok VNone).
Proof. intros. split; [apply reading_by_index_valid|apply reading_by_index_invalid]. Qed.
Print Assumptions C20_reading_by_index_agrees.

(* as_list is the column of readings: entry i = reading(name, i) = reading(name, i - len) *)
Theorem C20_as_list_is_column :
  forall (O : NumOps) (st : list (cd (payload O))) (name : string) (out : list (val O)) (i : Z),
  0 <= i < zlen st -> as_list O st name = Ok out ->
  exists v, nth_error out (Z.to_nat i) = Some v /\ reading O st name i = Ok v /\
            reading O st name (i - zlen st) = Ok v.
Proof. exact as_list_nth. Qed.
Print Assumptions C20_as_list_is_column.

(* has_reading is "the latest reading is not None": 0, 0.0 and False count as readings *)
Theorem C20_has_reading_iff_latest_not_none :
  forall (O : NumOps) (st : list (cd (payload O))) (name : string) c pre, st = pre ++ [c] ->
  has_reading O st name = (v <- read_candle O c name ;; Ok (negb (is_none O v))).
Proof. exact has_reading_spec. Qed.
Print Assumptions C20_has_reading_iff_latest_not_none.

(* reading_count is the number of trailing candles that hold a reading *)
Theorem C20_reading_count_is_trailing_run :
  forall (O : NumOps) (rv : list (cd (payload O))) (name : string) (n : Z),
  count_trailing O rv name = Ok n ->
  exists k, n = Z.of_nat k /\ (k <= List.length rv)%nat /\
    (forall c, In c (firstn k rv) -> exists v, reading_by_candle O (p c) name = Ok v /\ is_none O v = false) /\
    (forall c, nth_error rv k = Some c -> reading_by_candle O (p c) name = Ok VNone).
Proof. exact reading_count_spec. Qed.
Print Assumptions C20_reading_count_is_trailing_run.
