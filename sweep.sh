#!/bin/sh
# Development aid: every check, several seeds, on the unchanged tree.  usage: ./sweep.sh "1 2 3" [tier]
cd "$(dirname "$0")"
[ -d coq/theories/Base ] && [ ! -f coq/theories/Base/Prelude.vo ] && ./setup.sh > /dev/null 2>&1
for sd in $1; do
  for p in C01 C02 C03 C04 C05 C06 C07 C08 C09 C10 C11 C12 C13 C14 C15 C16 C17 C18 C19 C20; do
    out=$(VERIF_SEED=$sd ./check $p --tier ${2:-quick} 2>&1)
    rc=$?
    echo "seed=$sd $p rc=$rc $(echo "$out" | grep -v KNOWN | tail -1 | cut -c1-160)"
    if [ $rc -ne 0 ]; then echo "$out" | grep -A1 VIOLATION | cut -c1-400; fi
  done
done
