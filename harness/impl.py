"""Driving the implementation under test (imported from the repository working tree)."""
from __future__ import annotations

import copy
import math
from datetime import datetime, timedelta
from typing import Any, Dict, List, Optional, Tuple

from . import core
from .gen import tf_arg, to_dt, to_ts

core.setup_import_path()

import hexital  # noqa: E402
from hexital import Candle, Hexital  # noqa: E402
from hexital.core.candle_manager import CandleManager  # noqa: E402
from hexital.candlesticks.heikinashi import HeikinAshi  # noqa: E402
import hexital.indicators as I  # noqa: E402

assert str(core.REPO) in hexital.__file__, f"hexital imported from {hexital.__file__}, expected {core.REPO}"


CASE_SECONDS = 10.0


def mk_candle(row: Dict) -> Candle:
    # "us": a fraction of a second on the timestamp (the library buckets by whole seconds)
    ts = (to_dt(row["ts"]) + timedelta(microseconds=row.get("us", 0))) if row.get("ts") is not None else None
    if ts is not None and row.get("iso"):
        ts = ts.isoformat()          # "iso": the timestamp handed over as an ISO string (naive, like the datetime)
    return Candle(row["open"], row["high"], row["low"], row["close"], row["volume"], timestamp=ts)


def mk_candles(rows: List[Dict]) -> List[Candle]:
    return [mk_candle(r) for r in rows]


def snap_ohlcv(c: Candle):
    return (c.open, c.high, c.low, c.close, c.volume)


def snap_candle(c: Candle) -> Dict[str, Any]:
    cv = c.clean_values
    clean = None
    if cv:
        clean = tuple(cv.get(k) for k in ("open", "high", "low", "close", "volume"))
    return {"ts": to_ts(c.timestamp) if c.timestamp is not None else None,
            "ohlcv": snap_ohlcv(c), "clean": clean, "tag": c.tag,
            "inds": copy.deepcopy(c.indicators), "subs": copy.deepcopy(c.sub_indicators)}


def snap_list(cs: List[Candle]) -> List[Dict[str, Any]]:
    return [snap_candle(c) for c in cs]


def manager(cfg: Dict, rows: List[Dict]) -> CandleManager:
    return CandleManager(mk_candles(rows),
                         candles_lifespan=timedelta(seconds=cfg["lifespan"]) if cfg.get("lifespan") is not None else None,
                         timeframe=tf_arg(cfg.get("tf"), len(rows)), timeframe_fill=bool(cfg.get("fill")),
                         candlestick_type=HeikinAshi() if cfg.get("ha") else None)


def run_manager(cfg: Dict, init: List[Dict], ops: List[Tuple]) -> Tuple[List[List[Dict]], Optional[str]]:
    """States after construction and after each op; stops at the first exception."""
    states: List[List[Dict]] = []
    try:
        with core.time_limit(CASE_SECONDS):
            m = manager(cfg, init)
    except Exception as e:  # noqa
        return states, type(e).__name__
    states.append(snap_list(m.candles))
    for op in ops:
        try:
            with core.time_limit(CASE_SECONDS):
                if op[0] == "append":
                    m.append(mk_candles(op[1]))
                elif op[0] == "collapse":
                    m.collapse_candles()
                elif op[0] == "tasks":
                    m._tasks()
                else:
                    raise ValueError(op)
        except Exception as e:  # noqa
            return states, type(e).__name__
        states.append(snap_list(m.candles))
    return states, None


def is_number(v) -> bool:
    return isinstance(v, (int, float)) and not isinstance(v, bool)


def finite(v) -> bool:
    return (not isinstance(v, float)) or math.isfinite(v)
