"""Correspondence of the Hexital model (Model/Hexital.v: hx_new / hx_step) with
hexital.Hexital: the same construction (Hexital-level settings, initial candles, members
with or without a timeframe of their own) and the same operation sequence on both sides;
every manager's candles - timestamps, OHLCV, both reading dictionaries - compared bit for
bit after construction and after sampled operations, exceptions compared as an enum."""
from __future__ import annotations

import copy
from typing import Any, Dict, List, Optional, Tuple

from . import analysis as A
from . import coqrun as C
from . import core, gen, hx, mgrcorr
from . import indicators as X
from .mgrcorr import EXN_CODES

CASE_TYPE = "hx_case POW"
CHECKER = "check_hx POW"


def snapshot(h) -> List[Tuple[str, List[Dict]]]:
    out = []
    for name, cs in h.get_candles().items():
        out.append((name, [{"ts": gen.to_ts(c.timestamp) if c.timestamp is not None else 0,
                            "ohlcv": (c.open, c.high, c.low, c.close, c.volume),
                            "inds": copy.deepcopy(c.indicators), "subs": copy.deepcopy(c.sub_indicators)} for c in cs]))
    return out


def raw_rows(rows: List[Dict]):
    return A.mk([{**r, "inds": {}, "subs": {}} for r in rows])


def apply_op(h, op: Tuple):
    k = op[0]
    if k == "append":
        h.append(raw_rows(op[1]))
    elif k == "calculate":
        h.calculate(op[1])
    elif k == "purge":
        h.purge(op[1])
    elif k == "recalculate":
        h.recalculate(op[1])
    elif k == "calc_index":
        h.calculate_index(op[1], op[2])
    elif k == "remove":
        h.remove_indicator(op[1])
    elif k == "add":
        h.add_indicator(hx.member(op[1], op[2]))
    else:
        raise ValueError(op)


def member_term(spec: Dict, tf: Optional[str], obj) -> str:
    own = "None"
    if tf:
        own = "(Some (%s, %s))" % (C.strlit(str(obj.timeframe)), C.zlit(mgrcorr.tf_seconds(tf)))
    return "(%s, %s, %s, %s)" % (X.kind_term(spec, obj), C.strlit(obj.name), C.zlit(obj.round_value), own)


def hc_term(s: Dict) -> str:
    return "(%s, %s, %s, %s)" % (C.zlit(s["ts"]), mgrcorr.ohlcv_term(s["ohlcv"]), A.alist_term(s["inds"]), A.alist_term(s["subs"]))


def state_term(st: List[Tuple[str, List[Dict]]]) -> str:
    return C.listlit(st, lambda kv: "(%s, %s)" % (C.strlit(kv[0]), C.listlit(kv[1], hc_term)))


def optname(n: Optional[str]) -> str:
    return C.optlit(n, C.strlit)


def case_term(specs: List[Dict], tfs: List[Optional[str]], hcfg: Dict, init: List[Dict], ops: List[Tuple],
              rng=None, checkpoints: int = 3, limit: float = 30.0):
    """Run the implementation and build the Coq term.  Operations name members by index
    (resolved to the objects' names here).  Returns (term or None, states, error, pow entries)."""
    objs = [hx.member(s, tf) for s, tf in zip(specs, tfs)]
    names = [o.name for o in objs]
    if len(set(names)) != len(names):
        return None, [], None, []
    pows = []
    for s, o in zip(specs, objs):
        pows += X.pow_entries(s, o)
    mterms = [member_term(s, tf, o) for s, tf, o in zip(specs, tfs, objs)]
    states: List = []
    err = None
    try:
        with core.time_limit(limit):
            h = hx.hexital([{**r, "inds": {}} for r in init], objs, hcfg)
    except Exception as e:  # noqa
        h = None
        err = type(e).__name__
    op_terms = []
    if h is not None:
        states.append(snapshot(h))
        for op in ops:
            op = list(op)
            if op[0] in ("calculate", "purge", "recalculate", "calc_index", "remove") and isinstance(op[1], int):
                op[1] = names[op[1]]
            if op[0] == "add":
                probe = hx.member(op[1], op[2])
                if probe.name in h.indicators:
                    continue
                pows += X.pow_entries(op[1], probe)
                op_terms.append("(hadd %s)" % member_term(op[1], op[2], probe))
            elif op[0] == "append":
                op_terms.append("(HAppend F %s)" % C.listlit(op[1], mgrcorr.row_term))
            elif op[0] == "calc_index":
                op_terms.append("(HCalcIndex F %s %s)" % (optname(op[1]), C.zlit(op[2])))
            elif op[0] == "remove":
                op_terms.append("(HRemove F %s)" % C.strlit(op[1]))
            else:
                op_terms.append("(%s F %s)" % ({"calculate": "HCalculate", "purge": "HPurge", "recalculate": "HRecalculate"}[op[0]],
                                             optname(op[1])))
            try:
                with core.time_limit(limit):
                    apply_op(h, tuple(op))
            except Exception as e:  # noqa
                err = type(e).__name__
                break
            states.append(snapshot(h))
    code = EXN_CODES.get(err, 99) if err is not None else None
    keep = set(range(len(states)))
    if rng is not None and len(states) > checkpoints:
        keep = set(rng.sample(range(len(states) - 1), checkpoints - 1)) | {len(states) - 1}
    if h is None:
        op_terms = []
    term = "(%s, %s, %s, %s, %s, %s)" % (
        mgrcorr.cfg_term(hcfg), C.listlit(init, mgrcorr.row_term), "[" + "; ".join(mterms) + "]",
        "[" + "; ".join(op_terms) + "]",
        C.listlit(list(enumerate(states)), lambda ist: ("(Some %s)" % state_term(ist[1])) if ist[0] in keep else "None"),
        C.optlit(code, C.zlit))
    return term, states, err, pows


class HxCorr:
    """Accumulates Hexital correspondence cases of one property and evaluates them in Coq."""

    def __init__(self, ctx: core.Ctx, prop: str):
        self.ctx, self.prop = ctx, prop
        self.terms: List[str] = []
        self.metas: List[Dict] = []
        self.pows: set = set()

    def add(self, specs, tfs, hcfg, init, ops, rng, meta: Optional[Dict] = None):
        try:
            term, states, err, pw = case_term(specs, tfs, hcfg, init, ops, rng)
        except Exception as e:  # noqa - the implementation's state cannot be written down as a model term
            self.ctx.corr_disagreements.append({"relation": "check_hx: the implementation's state is outside what the model can express "
                                                            f"({type(e).__name__}: {e})", "specs": specs, "tfs": tfs, "hcfg": hcfg, "init": init, "ops": ops})
            return
        if term is None:
            return
        self.terms.append(term)
        self.metas.append({"specs": specs, "tfs": tfs, "hcfg": hcfg, "init": init, "ops": ops, "exc": err, "meta": meta})
        self.pows.update(pw)
        self.ctx.count("eval_hexital_correspondence")

    def run(self):
        if not self.terms:
            return
        bad, errs = C.run_shards(self.prop, "hx", self.terms, CASE_TYPE, CHECKER, extra_imports="Model.Hexital",
                                pow_table=sorted(self.pows))
        for e in errs:
            self.ctx.corr_disagreements.append({"relation": "check_hx (Run/Check.v) failed to evaluate", "log": e})
        for i in bad[:6]:
            self.ctx.corr_disagreements.append({
                "relation": "check_hx: model (Model/Hexital.v over binary64) != implementation: some manager's candles "
                            "or readings differ after construction or an operation", **self.metas[i]})
        self.ctx.coverage.update({"hexital_correspondence_cases": len(self.terms),
                                  "hexital_correspondence_disagreements": len(bad) + len(errs)})
