"""Shared driver for the candle-manager properties (C03, C11, C12, C15): generate
construction/append sequences, run the property's falsifier on the implementation, and
run the model/implementation correspondence inside Coq."""
from __future__ import annotations

from typing import Callable, Dict, List, Optional

from . import core, gen, impl, mgrcorr
from . import coqrun as C


def gen_mgr_case(rng, ctx, cfg_fn: Callable, max_n_quick=60, max_n_thorough=200, collapse_ops=True):
    n = rng.choice([0, 1, 2, 3]) if rng.random() < 0.08 else rng.randint(4, max_n_thorough if ctx.thorough else max_n_quick)
    rows, meta = gen.gen_stream(rng, n)
    cfg = cfg_fn(rng, rows, meta)
    if cfg.get("tf") and rows and rows[0]["ts"] >= 0 and rng.random() < 0.15:
        # sub-second timestamps: a timeframe manager works on whole seconds (the fraction is dropped
        # before bucketing), whichever way the candles reach it
        us = rng.choice([1, 500000, 700000, 999999])
        for r in rows:
            r["us"] = us
        meta["subsecond"] = True
    init, chunks = gen.gen_chunks(rng, rows)
    ops = []
    for ch in chunks:
        ops.append(("append", ch))
        if collapse_ops and rng.random() < 0.1:
            ops.append(("tasks",))
    meta.update({"tf": cfg.get("tf"), "init": len(init), "chunks": len(chunks), "fill": bool(cfg.get("fill")),
                 "ha": bool(cfg.get("ha")), "lifespan": cfg.get("lifespan")})
    return cfg, rows, init, ops, meta


def bounded_tf(rng, rows, meta, max_buckets=600):
    """A timeframe for which the stream spans at most max_buckets buckets (fill stays small)."""
    span = (rows[-1]["ts"] - rows[0]["ts"]) if rows else 0
    for _ in range(20):
        tf, tfs = gen.gen_timeframe(rng, meta["step"])
        if span // tfs <= max_buckets:
            return tf, tfs
    return "D45", 86400 * 45


def run_property(ctx: core.Ctx, prop: str, cfg_fn: Callable, falsify: Callable, n_quick: int, n_thorough: int,
                 nontrivial: Callable, nontrivial_rule: str, collapse_ops=True, extra_assumptions: Optional[List[str]] = None) -> int:
    proof = C.check_props(prop)
    ctx.proof_broken.extend(proof["broken"])
    rng = ctx.rng("cases")
    terms, metas = [], []
    dist: Dict[str, int] = {}
    # minimised corpus cases (earlier failures) run first
    corpus = []
    cdir = core.CORPUS / prop
    if cdir.exists():
        import json
        for f in sorted(cdir.glob("*.json")):
            corpus.append(json.loads(f.read_text()))
    n_cases = ctx.n(n_quick, n_thorough)
    for i in range(len(corpus) + n_cases):
        if i < len(corpus):
            c = corpus[i]
            cfg, init, ops = c["cfg"], c["init"], [tuple(o) for o in c["ops"]]
            rows = init + [x for o in ops if o[0] == "append" for x in o[1]]
            meta = {"corpus": True, "regime": "corpus", "ts_mode": "corpus"}
        else:
            cfg, rows, init, ops, meta = gen_mgr_case(rng, ctx, cfg_fn, collapse_ops=collapse_ops)
        ctx.count("eval_falsifier")
        falsify(ctx, cfg, rows, init, ops, meta)
        try:
            term, states, err = mgrcorr.case_term(cfg, init, ops, rng)
        except Exception as e:  # noqa - the implementation's state cannot be written down as a model term
            ctx.corr_disagreements.append({"relation": "check_mgr: the implementation's state is outside what the model can express "
                                                       f"({type(e).__name__}: {e})", "cfg": cfg, "init": init, "ops": ops, "meta": meta})
            continue
        terms.append(term)
        metas.append((cfg, init, ops, meta))
        ctx.count("eval_correspondence")
        ctx.seen({"cfg": cfg, "rows": rows, "ops": [o[0] for o in ops]}, nontrivial(cfg, rows, states))
        for k in ("regime", "ts_mode"):
            dist[f"{k}={meta.get(k)}"] = dist.get(f"{k}={meta.get(k)}", 0) + 1
        for k in ("fill", "ha"):
            if cfg.get(k):
                dist[k] = dist.get(k, 0) + 1
        dist["init=%s" % min(len(init), 3)] = dist.get("init=%s" % min(len(init), 3), 0) + 1
        if len(ctx.samples) < 3 and len(rows) > 5:
            ctx.sample({"cfg": cfg, "n": len(rows), "init": len(init), "ops": [o[0] for o in ops][:8],
                        "first_rows": rows[:2], "final_len": len(states[-1]) if states else None, "exc": err})
    bad, errs = C.run_shards(prop, "mgr", terms, mgrcorr.CASE_TYPE, mgrcorr.CHECKER)
    for e in errs:
        ctx.corr_disagreements.append({"relation": "check_mgr (Run/Check.v) failed to evaluate", "log": e})
    for i in bad:
        cfg, init, ops, meta = metas[i]
        ctx.corr_disagreements.append({"relation": "check_mgr: model manager state != implementation state "
                                                   "(timestamps, OHLCV, clean values, tags after construction/append)",
                                       "cfg": cfg, "init": init, "ops": ops, "meta": meta})
    ctx.coverage.update({"correspondence_cases": len(terms), "correspondence_disagreements": len(bad) + len(errs),
                         "input_distribution": dist, "nontrivial_rule": nontrivial_rule, "corpus_cases": len(corpus)})
    ctx.assumptions.append("process TZ forced to UTC for this check; zone independence is C18's subject")
    for a in extra_assumptions or []:
        ctx.assumptions.append(a)
    return core.finish(ctx, proof)
