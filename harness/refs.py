"""Independent reference definitions of the indicators (unrounded floats over plain
lists), written from the textbook formulas in the property statements C04-C06."""
from __future__ import annotations

import math
from typing import List, Optional


def window(x, i, p):
    """The p values ending at i, or None when not all present."""
    if i - p + 1 < 0:
        return None
    w = x[i - p + 1:i + 1]
    return None if any(v is None for v in w) else w


def sma(x, p):
    return [None if window(x, i, p) is None else sum(window(x, i, p)) / p for i in range(len(x))]


def wma(x, p):
    wt = p * (p + 1) / 2
    out = []
    for i in range(len(x)):
        w = window(x, i, p)
        out.append(None if w is None else sum(w[p - 1 - k] * (p - k) for k in range(p)) / wt)
    return out


def ema(x, p, a=None, seed="sma", rnd=None):
    """rnd: rounding applied to every stored value (helper series are stored with 4 decimals)"""
    a = a if a is not None else 2 / (p + 1)
    out = []
    prev = None
    rr = (lambda v: v) if rnd is None else rnd
    for i in range(len(x)):
        if prev is None:
            w = window(x, i, p)
            if w is not None:
                if seed == "sma":
                    prev = rr(sum(w) / p)
                else:
                    ws = [(1 - a) ** k for k in range(p)]
                    prev = rr(sum(wk * w[p - 1 - k] for k, wk in enumerate(ws)) / sum(ws))
        elif x[i] is None:
            prev = None
        else:
            prev = rr(a * x[i] + (1 - a) * prev)
        out.append(prev)
    return out


def rma(x, p, rnd=None):
    return ema(x, p, 1 / p, "decay", rnd)


def r4(v):
    return round(v, 4)


def vwma(c, v, p):
    out = []
    for i in range(len(c)):
        if i < p - 1:
            out.append(None)
            continue
        vs = sum(v[i - p + 1:i + 1])
        out.append(sum(c[j] * v[j] for j in range(i - p + 1, i + 1)) / vs if vs else sum(c[i - p + 1:i + 1]) / p)
    return out


def hma(x, p):
    w1, w2 = wma(x, p), wma(x, p // 2)
    raw = [None if a is None or b is None else 2 * b - a for a, b in zip(w1, w2)]
    return wma(raw, int(math.sqrt(p)))


def tr(h, l, c):
    return [None] + [max(h[i] - l[i], abs(h[i] - c[i - 1]), abs(l[i] - c[i - 1])) for i in range(1, len(c))]


def wilder(x, p):
    out = []
    prev = None
    for i in range(len(x)):
        if prev is None:
            w = window(x, i, p)
            if w is not None:
                prev = sum(w) / p
        else:
            prev = (prev * (p - 1) + x[i]) / p
        out.append(prev)
    return out


def wilder_rounded(x, p):
    out = []
    prev = None
    for i in range(len(x)):
        if prev is None:
            w = window(x, i, p)
            if w is not None:
                prev = r4(sum(w) / p)
        else:
            prev = r4((prev * (p - 1) + x[i]) / p)
        out.append(prev)
    return out


def atr(h, l, c, p):
    return wilder(tr(h, l, c), p)


def stdev(x, p):
    """population standard deviation; first reading once p+1 inputs exist (the code's warm-up)"""
    out = []
    for i in range(len(x)):
        w = window(x, i, p)
        if w is None or i - p < 0 or x[i - p] is None:
            out.append(None)
            continue
        m = sum(w) / p
        out.append(math.sqrt(max(0.0, sum((v - m) ** 2 for v in w) / p)))
    return out


def rsi(x, p):
    out = [None] * len(x)
    g = l = None
    for i in range(len(x)):
        if g is None:
            if i >= p and window(x, i, p + 1) is not None:
                ch = [x[j] - x[j - 1] for j in range(i - p + 1, i + 1)]
                g = sum(c for c in ch if c > 0) / p
                l = sum(-c for c in ch if c < 0) / p
        else:
            c = x[i] - x[i - 1]
            g = (g * (p - 1) + max(c, 0)) / p
            l = (l * (p - 1) + max(-c, 0)) / p
        if g is not None:
            out[i] = 100.0 if l == 0 else 100 - 100 / (1 + g / l)
    return out


def roc(x, p):
    return [None if i < p or x[i - p] is None or x[i] is None else (x[i] - x[i - p]) / x[i - p] * 100 for i in range(len(x))]


def obv(c, v):
    out = [v[0]] if c else []
    for i in range(1, len(c)):
        out.append(out[-1] + v[i] if c[i] > c[i - 1] else out[-1] - v[i] if c[i] < c[i - 1] else out[-1])
    return out


def vwap(h, l, c, v):
    pv = vol = 0
    out = []
    for a, b, d, e in zip(h, l, c, v):
        pv += e * (a + b + d) / 3
        vol += e
        out.append(pv / vol if vol else pv)
    return out


def macd(x, f, s, sig):
    ef, es = ema(x, f), ema(x, s)
    m = [None if a is None or b is None else a - b for a, b in zip(ef, es)]
    sg = ema(m, sig)
    return m, sg, [None if a is None or b is None else a - b for a, b in zip(m, sg)]


def stoch(h, l, c, p, k, d):
    st = []
    for i in range(len(c)):
        if i < p - 1 or window(c, i, p) is None:
            st.append(None)
            continue
        hi, lo = max(h[i - p + 1:i + 1]), min(l[i - p + 1:i + 1])
        st.append((c[i] - lo) / (hi - lo) * 100 if hi != lo else 0.0)
    kk = sma(st, k)
    return st, kk, sma(kk, d)


def tsi(x, p, sp):
    m = [None] + [None if x[i] is None or x[i - 1] is None else x[i] - x[i - 1] for i in range(1, len(x))]
    am = [None if v is None else abs(v) for v in m]
    # the four smoothing stages are helper series, stored with 4 decimals
    a, b = ema(ema(m, p, rnd=r4), sp, rnd=r4), ema(ema(am, p, rnd=r4), sp, rnd=r4)
    return [None if u is None or v is None else (100 * u / v if v else 0.0) for u, v in zip(a, b)]


def aroon(h, l, p):
    up, dn = [], []
    for i in range(len(h)):
        if i < p:
            up.append(None)
            dn.append(None)
            continue
        wh, wl = h[i - p:i + 1], l[i - p:i + 1]
        bh = min(k for k in range(p + 1) if wh[p - k] == max(wh))
        bl = min(k for k in range(p + 1) if wl[p - k] == min(wl))
        up.append(100 * (p - bh) / p)
        dn.append(100 * (p - bl) / p)
    return up, dn


def adx(h, l, c, p, ps):
    n = len(c)
    pos, neg = [None], [None]
    for i in range(1, n):
        u, d = h[i] - h[i - 1], l[i - 1] - l[i]
        pos.append(u if u > d and u > 0 else 0.0)
        neg.append(d if d > u and d > 0 else 0.0)
    # ATR (over a 4-decimal TR), the smoothed +DM/-DM and ADX itself are helper series stored with 4 decimals
    trr = [None if v is None else r4(v) for v in tr(h, l, c)]
    a = [None if v is None else r4(v) for v in wilder_rounded(trr, p)]
    sp, sn = rma(pos, p, r4), rma(neg, p, r4)
    dip = [None if x is None or y is None else (100 * y / x if x else 0.0) for x, y in zip(a, sp)]
    din = [None if x is None or y is None else (100 * y / x if x else 0.0) for x, y in zip(a, sn)]
    dx = [None if x is None or y is None else (100 * abs(x - y) / (x + y) if x + y else 0.0) for x, y in zip(dip, din)]
    return rma(dx, ps, r4), dip, din


def supertrend(h, l, c, p, mult, tie=None):
    """Returns the series; with [tie] set, also the first index at which a flip decision (close
    against the previous band) is closer than [tie] to a draw - the stored bands carry the
    4-decimal rounding of the ATR helper, so from there on the definition leaves the outcome open."""
    a = atr(h, l, c, p)
    out = []
    pu = pl = None
    pdir = 1
    ambiguous = None
    for i in range(len(c)):
        if a[i] is None:
            out.append((None, 1, None, None))
            continue
        hl = (h[i] + l[i]) / 2
        up, lo, d = hl + mult * a[i], hl - mult * a[i], 1
        if pl is not None:
            if tie is not None and ambiguous is None and (abs(c[i] - pu) <= tie or abs(c[i] - pl) <= tie
                                                           or abs(lo - pl) <= tie or abs(up - pu) <= tie):
                ambiguous = i
            if c[i] > pu:
                d = 1
            elif c[i] < pl:
                d = -1
            else:
                d = pdir
                if d == 1 and lo < pl:
                    lo = pl
                if d == -1 and up > pu:
                    up = pu
        pu, pl, pdir = up, lo, d
        out.append((lo if d == 1 else up, d, lo if d == 1 else None, up if d == -1 else None))
    return out if tie is None else (out, ambiguous)


def donchian(h, l, p):
    up = [None if i < p - 1 else max(h[i - p + 1:i + 1]) for i in range(len(h))]
    lo = [None if i < p - 1 else min(l[i - p + 1:i + 1]) for i in range(len(h))]
    return up, lo


def highest_lowest(h, l, p):
    return ([max(h[max(0, i - p):i + 1]) for i in range(len(h))], [min(l[max(0, i - p):i + 1]) for i in range(len(h))])
