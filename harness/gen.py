"""Input generators.  Every choice comes from the random.Random handed in."""
from __future__ import annotations

from datetime import datetime, timedelta
from typing import Dict, List, Optional, Tuple

EPOCH = datetime(1970, 1, 1)
UNITS = {"S": 1, "T": 60, "H": 3600, "D": 86400}
REGIMES = ["walk", "flat", "up", "down", "eqclose", "tiny", "zero_vol", "mixed"]
TS_MODES = ["regular", "jitter", "dups", "gaps", "biggaps"]


def to_dt(ts: int) -> datetime:
    return EPOCH + timedelta(seconds=ts)


def to_ts(dt: datetime) -> int:
    return int((dt - EPOCH).total_seconds())


def r2(x: float) -> float:
    return round(x, 2)


def gen_prices(rng, n: int, regime: str, base_prices=(1.5, 20.0, 100.0, 431.27, 9000.0)) -> List[Dict]:
    """OHLCV rows on a 0.01 grid with low <= open, close <= high, volume >= 0."""
    rows = []
    price = r2(rng.choice(list(base_prices)) * rng.uniform(0.8, 1.2))
    sub = regime
    for i in range(n):
        if regime == "mixed" and (i % 7 == 0):
            sub = rng.choice(REGIMES[:-1])
        if sub == "walk":
            o = price
            c = r2(max(0.05, o * (1 + rng.gauss(0, 0.01))))
            h = r2(max(o, c) * (1 + abs(rng.gauss(0, 0.004))))
            l = r2(max(0.01, min(o, c) * (1 - abs(rng.gauss(0, 0.004)))))
            v = rng.randint(0, 5000)
        elif sub == "flat":
            o = c = h = l = price
            v = rng.choice([0, 0, 10, 250])
        elif sub == "up":
            o = price
            c = r2(o + rng.choice([0.01, 0.05, 0.5, 1.0]))
            h, l = c, o
            v = rng.randint(1, 3000)
        elif sub == "down":
            o = price
            c = r2(max(0.02, o - rng.choice([0.01, 0.05, 0.5])))
            h, l = o, c
            v = rng.randint(1, 3000)
        elif sub == "eqclose":
            o = r2(price + rng.choice([-0.3, 0.0, 0.3]))
            c = price
            h = r2(max(o, c) + rng.choice([0.0, 0.2]))
            l = r2(max(0.01, min(o, c) - rng.choice([0.0, 0.2])))
            v = rng.choice([100, 100, 100, 7, 0])
        elif sub == "tiny":
            o = price
            c = r2(max(0.01, o + rng.choice([-0.01, 0.0, 0.01])))
            h, l = max(o, c), min(o, c)
            v = rng.randint(0, 3)
        elif sub == "micro":
            # long flat stretches with moves far below the 4-decimal rounding of helper series
            o = price
            c = round(max(0.01, o + rng.choice([0.0, 0.0, 0.0, 0.0, 0.0005, -0.0003, 0.0001])), 4)
            h = round(max(o, c) + rng.choice([0.0, 0.0, 0.0, 0.0005, 0.0002]), 4)
            l = round(max(0.0001, min(o, c) - rng.choice([0.0, 0.0, 0.0, 0.0004])), 4)
            v = rng.choice([0, 1, 50])
        elif sub == "zeros":
            # legitimate but unusual: prices that touch exactly 0.0 (falsy values)
            o = rng.choice([0.0, 0.0, price])
            c = r2(max(0.0, price + rng.choice([-0.5, 0.0, 0.5])))
            h = r2(max(o, c) + rng.choice([0.0, 0.25]))
            l = rng.choice([0.0, min(o, c)])
            v = rng.choice([0, 5, 100])
        else:  # zero_vol
            o = price
            c = r2(max(0.05, o * (1 + rng.gauss(0, 0.01))))
            h = r2(max(o, c) + 0.1)
            l = r2(max(0.01, min(o, c) - 0.1))
            v = 0
        l = min(l, o, c)
        h = max(h, o, c)
        rows.append({"open": float(o), "high": float(h), "low": float(l), "close": float(c), "volume": int(v)})
        price = c
    return rows


def tf_arg(tf, salt=""):
    """The timeframe as the caller may give it: the string, or - for a third of the cases in
    which one exists, chosen by a stable hash so that replays reproduce it - the TimeFrame member."""
    if not tf or not isinstance(tf, str) or tf != tf.upper():
        return tf
    import zlib
    from hexital.utils.timeframe import TimeFrame
    members = {m.value: m for m in TimeFrame}
    if tf in members and zlib.crc32(f"{tf}|{salt}".encode()) % 3 == 0:
        return members[tf]
    return tf


def gen_timestamps(rng, n: int, mode: str, step: int, start: Optional[int] = None) -> List[int]:
    # mostly 2023; also before the epoch, the epoch year, a leap day, far future
    year = rng.choice([2023] * 6 + [1965, 1970, 2000, 2024, 2041])
    month, day = (2, 29) if year in (2000, 2024) and rng.random() < 0.5 else (rng.randint(1, 12), rng.randint(1, 28))
    base = to_ts(datetime(year, month, day, rng.randint(0, 23), 0, 0))
    if start is None:
        start = base + rng.choice([0, 0, step, 1, 7, 59, 61, 3599, 12345])
    ts = [start]
    for _ in range(n - 1):
        if mode == "regular":
            d = step
        elif mode == "jitter":
            d = rng.choice([step, step, step + 1, max(1, step - 1), 2 * step, 1])
        elif mode == "dups":
            d = rng.choice([0, 0, step, step, 1])
        elif mode == "gaps":
            d = rng.choice([step, step, step, step * rng.randint(2, 9), step * 3 + 1])
        else:  # biggaps
            d = rng.choice([step, step, step * rng.randint(10, 60), 1, step * 2])
        ts.append(ts[-1] + d)
    return ts


def gen_stream(rng, n: int, regime: Optional[str] = None, ts_mode: Optional[str] = None,
               step: Optional[int] = None) -> Tuple[List[Dict], Dict]:
    regime = regime or rng.choice(REGIMES + ["zeros"])
    ts_mode = ts_mode or rng.choice(TS_MODES)
    step = step or rng.choice([1, 5, 20, 60, 60, 300, 900, 3600, 86400])
    rows = gen_prices(rng, n, regime)
    for r, t in zip(rows, gen_timestamps(rng, n, ts_mode, step)):
        r["ts"] = t
    return rows, {"n": n, "regime": regime, "ts_mode": ts_mode, "step": step}


def gen_timeframe(rng, step: int) -> Tuple[str, int]:
    """A timeframe string and its length in seconds, usually a few stream steps long."""
    cands = []
    for u, s in UNITS.items():
        for m in (1, 2, 3, 4, 5, 7, 10, 15, 30, 45, 90, 120, 240, 300, 1440):   # also amounts of three and four digits
            cands.append((f"{u}{m}", s * m))
    near = [c for c in cands if step <= c[1] <= 12 * step]
    pool = near if near and rng.random() < 0.8 else cands
    return rng.choice(pool)


def gen_chunks(rng, rows: List, max_init: Optional[int] = None) -> Tuple[List, List[List]]:
    """Split a stream into a pre-loaded part and append chunks (any composition)."""
    n = len(rows)
    k = rng.choice([0, 0, 1, 1, 2, rng.randint(0, n)]) if max_init is None else min(max_init, n)
    k = min(k, n)
    init, rest = rows[:k], rows[k:]
    chunks = []
    style = rng.choice(["ones", "random", "big"])
    i = 0
    while i < len(rest):
        if style == "ones":
            m = 1
        elif style == "random":
            m = rng.randint(1, 6)
        else:
            m = rng.randint(1, max(1, len(rest)))
        chunks.append(rest[i:i + m])
        i += m
    if chunks and rng.random() < 0.12:
        # an append of nothing is an append too
        chunks.insert(rng.randrange(len(chunks) + 1), [])
    return init, chunks
