"""Driving Coq: building the development, re-checking a property's theorem file,
evaluating generated case files with vm_compute, emitting literals."""
from __future__ import annotations

import math
import os
import re
import subprocess
import time
from concurrent.futures import ThreadPoolExecutor
from pathlib import Path
from typing import Any, Dict, List, Tuple

from .core import BUILD, VERIF

COQ = VERIF / "coq"
THEORIES = COQ / "theories"
FORBIDDEN = re.compile(
    r"\b(Admitted|admit|Axiom|Axioms|Parameter|Parameters|Conjecture|Abort All)\b|Unset\s+Guard|bypass_check|"
    r"type-in-type|impredicative-set|Admit Obligations|Unset\s+Universe\s+Checking|Unset\s+Positivity"
)


def coq_build(timeout: int = 1800) -> Tuple[bool, str]:
    """Full .vo build (never -vos).  No-op when up to date."""
    vfiles = sorted(str(p.relative_to(COQ)) for p in THEORIES.rglob("*.v"))
    mk = COQ / "Makefile"
    need = (not mk.exists()) or mk.stat().st_mtime < (COQ / "_CoqProject").stat().st_mtime
    if not need:
        known = (COQ / "Makefile.conf").read_text() if (COQ / "Makefile.conf").exists() else ""
        need = any(v not in known for v in vfiles)
    if need:
        subprocess.run(["coq_makefile", "-f", "_CoqProject", *vfiles, "-o", "Makefile"], cwd=COQ,
                       check=True, capture_output=True)
    r = subprocess.run(["timeout", str(timeout), "make", "-j16"], cwd=COQ, capture_output=True, text=True)
    return r.returncode == 0, (r.stdout + r.stderr)[-4000:]


def forbidden_tokens() -> List[str]:
    hits = []
    for p in sorted(THEORIES.rglob("*.v")):
        txt = p.read_text()
        # strip comments (non-nested is enough for our sources; nested handled by loop)
        prev = None
        while prev != txt:
            prev = txt
            txt = re.sub(r"\(\*[^()]*?\*\)", "", txt, flags=re.S)
        for m in FORBIDDEN.finditer(txt):
            hits.append(f"{p.relative_to(COQ)}: {m.group(0)}")
    return hits


def check_props(prop: str, timeout: int = 600) -> Dict[str, Any]:
    """Re-run coqc on Props/<prop>.v; collect theorems and the axioms each depends on."""
    src = THEORIES / "Props" / f"{prop}.v"
    out: Dict[str, Any] = {"obligations": 0, "discharged": 0, "theorems": [], "axioms": {}, "broken": [],
                           "checker_cmd": f"cd /verif/coq && make && coqc -R theories Hexital theories/Props/{prop}.v  (Print Assumptions under every theorem; forbidden-token grep over theories/)"}
    ok, log = coq_build()
    text = src.read_text() if src.exists() else ""
    thms = re.findall(r"^\s*(?:Theorem|Corollary)\s+(\w+)", text, flags=re.M)
    out["theorems"] = thms
    out["obligations"] = len(thms)
    hits = forbidden_tokens()
    if hits:
        out["broken"].append("forbidden tokens: " + "; ".join(hits[:5]))
    if not ok:
        out["broken"].append("coq build failed: " + log[-1500:])
        return out
    if not src.exists():
        out["broken"].append(f"missing {src}")
        return out
    t0 = time.time()
    r = subprocess.run(["timeout", str(timeout), "coqc", "-R", "theories", "Hexital",
                        "-w", "-notation-overridden,-deprecated-syntactic-definition,-deprecated-hint-without-locality",
                        str(src.relative_to(COQ))], cwd=COQ, capture_output=True, text=True)
    out["coqc_s"] = round(time.time() - t0, 2)
    if r.returncode != 0:
        out["broken"].append(f"Props/{prop}.v does not check: " + (r.stdout + r.stderr)[-1500:])
        return out
    # parse Print Assumptions blocks, in order of the Print Assumptions commands
    printed = re.findall(r"^\s*Print Assumptions\s+(\w+)", text, flags=re.M)
    blocks = re.split(r"(?m)^(?=Closed under the global context|Axioms:)", r.stdout)
    blocks = [b for b in blocks if b.startswith("Closed under") or b.startswith("Axioms:")]
    for name, b in zip(printed, blocks):
        if b.startswith("Closed"):
            out["axioms"][name] = []
        else:
            names = re.findall(r"(?m)^([A-Za-z_][\w.']*)\s*:", b)
            out["axioms"][name] = sorted(set(n for n in names if n != "Axioms"))
    missing = [t for t in thms if t not in out["axioms"]]
    if missing or len(blocks) != len(printed):
        out["broken"].append(f"Print Assumptions missing for {missing} (blocks={len(blocks)}, printed={len(printed)})")
    out["discharged"] = len([t for t in thms if t in out["axioms"]]) if not out["broken"] else 0
    return out


# ----------------------------------------------------------------------------------------
# literals


def zlit(n: int) -> str:
    return f"({n})%Z" if n < 0 else f"{n}%Z"


def flit(x: float) -> str:
    """A binary64 as a Coq primitive float literal (exact, via float.hex())."""
    if math.isnan(x):
        return "nan"
    if math.isinf(x):
        return "infinity" if x > 0 else "neg_infinity"
    h = float(x).hex()
    return f"({h})%float"


def numlit(v) -> str:
    """A Python int/float as a [pynum]."""
    if isinstance(v, bool):
        raise TypeError("bool is not a pynum")
    if isinstance(v, int):
        return f"(PI {zlit(v)})"
    return f"(PF {flit(float(v))})"


def strlit(s: str) -> str:
    return '"' + s.replace('"', '""') + '"%string'


def vallit(v) -> str:
    """A reading as a [val FOps] term."""
    if v is None:
        return "(@VNone F)"
    if isinstance(v, bool):
        return f"(@VBool F {'true' if v else 'false'})"
    if isinstance(v, (int, float)):
        return f"(@VNum F {numlit(v)})"
    if isinstance(v, dict):
        items = "; ".join(f"({strlit(k)}, {vallit(x)})" for k, x in v.items())
        return f"(@VDict F [{items}])"
    raise TypeError(f"cannot encode {type(v)}")


def optlit(v, f) -> str:
    return "None" if v is None else f"(Some {f(v)})"


def listlit(xs, f=lambda x: x) -> str:
    return "[" + "; ".join(f(x) for x in xs) + "]"


# ----------------------------------------------------------------------------------------
# evaluation of generated case files

HEADER = """From Coq Require Import ZArith List String Bool PrimFloat.
From Hexital Require Import Base.Prelude Base.Num Base.PyFloat Model.Manager Model.Candle Model.Readings Model.Analysis Model.Engine Inst.FloatInst Spec.Steppers Run.Check{extra}.
Import ListNotations.
Local Open Scope Z_scope.
Definition POW : list (float * Z * float) := {pow}.
Notation F := (FOps POW).
"""


def powlit(table) -> str:
    """The libm pow oracle: (base, exponent, result) triples observed on this platform."""
    return "[" + "; ".join(f"({flit(b)}, {zlit(k)}, {flit(r)})" for b, k, r in table) + "]"


def eval_file(name: str, body: str, extra_imports: str = "", timeout: int = 900, pow_table=()) -> Tuple[bool, str]:
    d = BUILD / "cases"
    d.mkdir(parents=True, exist_ok=True)
    path = d / f"{name}.v"
    path.write_text(HEADER.format(extra=(" " + extra_imports) if extra_imports else "", pow=powlit(pow_table)) + body)
    r = subprocess.run(["timeout", str(timeout), "coqc", "-R", str(THEORIES), "Hexital",
                        "-w", "-notation-overridden,-deprecated-syntactic-definition",
                        str(path)], cwd=d, capture_output=True, text=True)
    for ext in (".vo", ".vok", ".vos", ".glob"):
        q = path.with_suffix(ext)
        if q.exists():
            q.unlink()
    aux = d / f".{name}.aux"
    if aux.exists():
        aux.unlink()
    return r.returncode == 0, r.stdout + r.stderr


def parse_bad_ids(out: str) -> List[int]:
    """Output of [Eval vm_compute in bad_ids ...] = list of Z, possibly wrapped."""
    flat = " ".join(out.split())
    m = re.search(r"=\s*\[(.*?)\]\s*:\s*list Z", flat)
    if not m:
        if re.search(r"=\s*\[\]\s*:\s*list Z", flat):
            return []
        raise ValueError("cannot parse Coq output: " + out[-800:])
    inner = m.group(1).strip()
    if not inner:
        return []
    return [int(x.replace("(", "").replace(")", "").replace("%Z", "")) for x in inner.split(";")]


def run_shards(prop: str, tag: str, case_terms: List[str], case_type: str, checker: str,
               preamble: str = "", extra_imports: str = "", shard: int = 150,
               timeout: int = 900, pow_table=()) -> Tuple[List[int], List[str]]:
    """Evaluate [checker : case_type -> bool] on every case inside Coq; returns the indices
    of the cases on which it is false, and error logs of shards that failed to run."""
    # shards are bounded by size: parsing time of coqc grows faster than linearly
    max_bytes = int(os.environ.get("VERIF_SHARD_BYTES", "350000"))
    shards: List[List[Tuple[int, str]]] = [[]]
    size = 0
    for i, t in enumerate(case_terms):
        if shards[-1] and (size + len(t) > max_bytes or len(shards[-1]) >= shard):
            shards.append([])
            size = 0
        shards[-1].append((i, t))
        size += len(t)

    def one(k_sh):
        k, sh = k_sh
        body = preamble + f"\nDefinition cases : list (Z * ({case_type})) := [\n" + ";\n".join(
            f"({zlit(i)}, {t})" for i, t in sh) + "\n].\n"
        body += f"Eval vm_compute in (map fst (filter (fun c => negb ({checker} (snd c))) cases)).\n"
        ok, out = eval_file(f"{prop}_{tag}_{k}", body, extra_imports, timeout, pow_table)
        if not ok:
            return None, f"shard {k}: " + out[-1200:]
        try:
            return parse_bad_ids(out), None
        except ValueError as e:
            return None, str(e)

    bad: List[int] = []
    errs: List[str] = []
    with ThreadPoolExecutor(max_workers=min(14, max(1, len(shards)))) as ex:
        for ids, err in ex.map(one, list(enumerate(shards))):
            if err:
                errs.append(err)
            else:
                bad.extend(ids)
    return sorted(bad), errs
