"""C04/C05/C06: indicator output against the independent reference definitions."""
from __future__ import annotations

from typing import Dict, List, Optional, Tuple

from . import coqrun as C
from . import core, engprop as E, gen, refs as R
from . import indicators as X


ANY = object()      # a reference entry the definition leaves open (comparison within rounding error of a tie)


def series(rows: List[Dict], name: str) -> List:
    if name in ("open", "high", "low", "close", "volume"):
        return [r[name] for r in rows]
    if name == "positive":
        return [r["open"] < r["close"] for r in rows]
    if name == "negative":
        return [r["open"] > r["close"] for r in rows]
    if "." in name:
        base, field = name.split(".", 1)
        return [(r.get("inds", {}).get(base) or {}).get(field) for r in rows]
    return [r.get("inds", {}).get(name) for r in rows]


def expected(spec: Dict, ind, rows: List[Dict]) -> Dict[str, Tuple[List, float]]:
    """field -> (reference series, absolute tolerance at round_value 4)"""
    k = spec["kind"]
    h, l, c, v = (series(rows, n) for n in ("high", "low", "close", "volume"))
    x = series(rows, getattr(ind, "input_value", "close")) if hasattr(ind, "input_value") else c
    n = len(rows)
    small = 2e-4 * (n + 10)
    if k == "SMA":
        return {"": (R.sma(x, ind.period), small)}
    if k == "EMA":
        return {"": (R.ema(x, ind.period, ind.smoothing / (ind.period + 1)), small)}
    if k == "RMA":
        return {"": (R.rma(x, ind.period), small)}
    if k == "WMA":
        return {"": (R.wma(x, ind.period), small)}
    if k == "VWMA":
        return {"": (R.vwma(c, v, ind.period), small)}
    if k == "HMA":
        return {"": (R.hma(x, ind.period), 5 * small)}
    if k == "TR":
        return {"": (R.tr(h, l, c), 1e-3)}
    if k == "ATR":
        return {"": (R.atr(h, l, c, ind.period), small)}
    if k == "STDEV":
        return {"": (R.stdev(x, ind.period), 1e-2)}
    if k == "BBANDS":
        s, sd = R.sma(x, ind.period), R.stdev(x, ind.period)
        ok = [a is not None and b is not None for a, b in zip(s, sd)]
        return {"BBM": ([a if o else None for a, o in zip(s, ok)], small),
                "BBU": ([a + 2 * b if o else None for a, b, o in zip(s, sd, ok)], 3e-2),
                "BBL": ([a - 2 * b if o else None for a, b, o in zip(s, sd, ok)], 3e-2)}
    if k == "KC":
        e, a = R.ema(x, ind.period), R.atr(h, l, c, ind.period)
        ok = [p is not None and q is not None for p, q in zip(e, a)]
        m = ind.multiplier
        return {"band": ([p if o else None for p, o in zip(e, ok)], small),
                "upper": ([p + m * q if o else None for p, q, o in zip(e, a, ok)], 10 * small),
                "lower": ([p - m * q if o else None for p, q, o in zip(e, a, ok)], 10 * small)}
    if k == "DONCHIAN":
        u, d = R.donchian(h, l, ind.period)
        return {"DCU": (u, 1e-3), "DCL": (d, 1e-3), "DCM": ([None if a is None else (a + b) / 2 for a, b in zip(u, d)], 1e-3)}
    if k == "HL":
        hi, lo = R.highest_lowest(h, l, ind.period)
        return {"high": (hi, 1e-3), "low": (lo, 1e-3)}
    if k == "HLA":
        return {"": ([(a + b) / 2 for a, b in zip(h, l)], 1e-3)}
    if k == "SUPERTREND":
        # a flip / ratchet decision within the rounding of the stored bands is left open, and so is
        # everything after it (the two trajectories may stay apart until the next clear flip)
        st, amb = R.supertrend(h, l, c, ind.period, ind.multiplier, tie=(1 + ind.multiplier) * 1.5e-4)
        cut = n if amb is None else amb
        return {f: ([r[j] for r in st[:cut]] + [ANY] * (n - cut), 20 * small)
                for j, f in enumerate(["trend", "direction", "long", "short"])}
    if k == "STDEVTHRES":
        # true exactly when the input moved by more than multiplier*sigma; sigma is a stored
        # (rounded, incrementally updated) helper, so comparisons within its error are left open
        sd, m, out = R.stdev(x, ind.period), ind.multiplier, []
        for i in range(n):
            if sd[i] is None:
                out.append(False)
                continue
            move, thr = abs(x[i] - x[i - 1]), m * sd[i]
            if move == 0:
                out.append(False)          # no move is never more than a non-negative threshold
            elif abs(move - thr) <= m * 1.2e-2 + 1e-9 * abs(thr):
                out.append(ANY)
            else:
                out.append(move > thr)
        return {"": (out, 0.5)}
    if k == "COUNTER":
        out, run = [], 0
        for r in x:
            if r is not None:
                run = run + 1 if ind.count_value == r else 0
            out.append(run)
        return {"": (out, 0.5)}
    if k == "RSI":
        return {"": (R.rsi(x, ind.period), 0.05)}
    if k == "MACD":
        m, sg, hs = R.macd(x, ind.fast_period, ind.slow_period, ind.signal_period)
        return {"MACD": (m, 2 * small), "signal": (sg, 4 * small), "histogram": (hs, 6 * small)}
    if k == "ROC":
        return {"": (R.roc(x, ind.period), 1e-3)}
    if k == "STOCH":
        st, kk, dd = R.stoch(h, l, x, ind.period, ind.smoothing_k, ind.slow_period)
        return {"stoch": (st, 1e-3), "k": (kk, small), "d": (dd, 2 * small)}
    if k == "TSI":
        return {"": (R.tsi(x, ind.period, ind.smooth_period), 1e-2)}
    if k == "AROON":
        u, d = R.aroon(h, l, ind.period)
        return {"AROONU": (u, 1e-3), "AROOND": (d, 1e-3), "AROONOSC": ([None if a is None else a - b for a, b in zip(u, d)], 1e-3)}
    if k == "ADX":
        a, dp, dn = R.adx(h, l, c, ind.period, ind.period_signal)
        return {"ADX": (a, 1e-2), "DM_Plus": (dp, 1e-2), "DM_Neg": (dn, 1e-2)}
    if k == "OBV":
        return {"": (R.obv(c, v), 1e-6)}
    if k == "VWAP":
        return {"": (R.vwap(h, l, c, v), 1e-3)}
    raise KeyError(k)


SPEC_KINDS = {"SMA", "EMA", "RMA", "WMA", "TR", "ATR", "HLA", "RSI", "ROC", "OBV", "VWAP"}


def spec_term(spec: Dict, ind, rows: List[Dict]) -> str:
    """Case for check_spec: the recurrence specification run over the input columns must
    reproduce the implementation's column bit for bit."""
    from .mgrcorr import EXN_CODES
    k = spec["kind"]
    z, n = C.zlit, C.numlit
    if k in ("SMA", "RMA", "WMA", "ATR", "RSI", "ROC"):
        kt = f"(@S_{k} F {z(ind.period)})"
    elif k == "EMA":
        kt = f"(@S_EMA F {z(ind.period)} {n(ind.smoothing)})"
    else:
        kt = f"(@S_{k} F)"
    src = getattr(ind, "input_value", None)
    inps = []
    for r in rows:
        x = None
        if src is not None:
            x = r[src] if src in ("open", "high", "low", "close", "volume") else series([r], src)[0]
        inps.append("mkinp %s %s %s %s %s %s" % (n(r["open"]), n(r["high"]), n(r["low"]), n(r["close"]), n(r["volume"]),
                                               C.optlit(x, n)))
    try:
        ind2 = X.build(spec, X.mk_rows(rows), {})
        ind2.calculate()
        exp = "(inl %s)" % C.listlit(ind2.as_list(), C.vallit)
    except Exception as e:  # noqa
        exp = "(inr %s)" % C.zlit(EXN_CODES.get(type(e).__name__, 99))
    return "(%s, %s, %s, %s)" % (kt, z(ind.round_value), C.listlit(inps), exp)


def falsify(ctx, case: Dict) -> bool:
    spec, rows = case["spec"], case["rows"]
    bad = None
    feed = case.get("feed", "batch")
    try:
        with core.time_limit(30):
            if feed == "batch":
                ind = X.build(spec, X.mk_rows(rows), {})
                ind.calculate()
            elif feed == "recalc":
                # the definition also holds for readings that were computed a second time
                ind = X.build(spec, X.mk_rows(rows), {})
                ind.calculate()
                if case["recalc_op"] == "recalculate":
                    ind.recalculate()
                elif case["recalc_op"] == "purge":
                    ind.purge()
                    ind.calculate()
                elif len(rows) > 0:
                    for i_ in case["recalc_idx"]:
                        ind.calculate_index(i_ % len(rows))
            elif feed == "single":
                # the same definition must hold for an indicator that met the stream candle by candle
                ind = X.build(spec, [], {})
                for r in rows:
                    ind.append(X.mk_rows([r]))
            else:
                # ... and on a collapsing timeframe fed candle by candle, against the definition
                # evaluated over the independently resampled candles
                from .props.C03 import expected as resampled
                ind = X.build(spec, [], {"tf": "T%d" % case["tfk"]})
                for r in rows:
                    ind.append(X.mk_rows([r]))
                rows = [{"ts": t, "open": o, "high": h, "low": l, "close": c, "volume": v, "inds": {}}
                        for (t, o, h, l, c, v) in resampled(rows, 60 * case["tfk"])]
    except Exception as e:  # noqa
        bad = {"relation": "raises", "exc": type(e).__name__}
        ind = None
    if ind is not None:
        # helper series are always stored with 4 decimals: finer rounding of the final reading
        # only tightens the tolerance for indicators without rounded helpers
        leaf = spec["kind"] in ("SMA", "EMA", "RMA", "WMA", "VWMA", "TR", "HLA", "ROC", "OBV", "DONCHIAN", "HL", "AROON", "VWAP", "RSI")
        scale = 10.0 ** (4 - ind.round_value) if leaf else 1.0
        for f, (want, tol) in expected(spec, ind, rows).items():
            got = ind.as_list(f"{ind.name}.{f}" if f else None)
            for i, (g, w) in enumerate(zip(got, want)):
                if w is ANY:
                    continue
                if (g is None) != (w is None):
                    bad = {"relation": "presence", "field": f, "side": "missing" if g is None else "early"}
                    detail = (i, g, w)
                    break
                if g is not None and abs(g - w) > tol * scale + 1e-7 * abs(w):
                    bad = {"relation": "value", "field": f}
                    detail = (i, g, w)
                    break
            if bad:
                break
    if bad:
        sig = {"kind": spec["kind"], **bad}
        sig["input"] = "late" if case.get("late") else "from-start"
        if feed != "batch":
            sig["feed"] = feed
        ctx.fail(sig, f"{spec} n={len(rows)} late={case.get('late')} feed={feed}: {bad}" + (f" at {detail}" if ind is not None else ""),
                 {"case": case}, size=len(rows))
        return True
    return False


def gen_case(rng, ctx, kinds: List[str]) -> Dict:
    kind = rng.choice(kinds)
    n = rng.randint(3, 160 if ctx.thorough else 70)
    late = rng.choice([0, 0, 0, 1, 2, 7]) if kind in X.HAS_INPUT else 0
    inputs = ("src", "dd.x") if late else ("close", "close", "high", "src", "dd.x")
    if not late and kind in ("SMA", "EMA", "RMA", "WMA", "STDEV", "STDEVTHRES"):
        inputs = inputs + ("volume", "zsrc", "zsrc")       # series that contain exact zeros
    spec = X.gen_spec(rng, kind, ctx.thorough, inputs=inputs)
    spec["round_value"] = rng.choice([4, 4, 8])
    # helper series are stored with 4 decimals whatever the scale of the prices: keep the
    # prices large enough for that rounding to be small against the quantities compared
    regimes = ["walk", "walk", "mixed", "up", "down", "eqclose"]
    if kind == "STDEVTHRES":        # runs without any move, where the flag must stay False
        regimes += ["eqclose", "flat", "mixed", "mixed"]
    rows = X.gen_rows(rng, n, rng.choice(regimes), late=late,
                      base_prices=(100.0, 431.27, 9000.0))
    if rng.random() < 0.3:      # repeated volumes while prices move
        for r in rows:
            r["volume"] = rng.choice([100, 100, 250])
    elif spec["kw"].get("input_value") == "volume":
        for r in rows:
            r["volume"] = rng.choice([0, 0, 120, 95, 130, 7])
    # an input series around zero with exact zeros in it: scattered, or in runs long enough
    # for an average over them to be exactly 0.0 before the series moves again
    runs = rng.random() < 0.5
    left, zero = 0, False
    for r in rows:
        if runs:
            if left == 0:
                zero = not zero
                left = rng.randint(2, 16) if zero else rng.randint(1, 6)
            left -= 1
            r["inds"]["zsrc"] = rng.choice([0.0, 0]) if zero else rng.choice([1.5, -2.25, 3.0, 0.5])
        else:
            r["inds"]["zsrc"] = rng.choice([0.0, 0.0, 0, 1.5, -2.25, 3.0, 0.5])
    feed = rng.choice(["batch", "batch", "batch", "single", "tf", "recalc"])
    if feed == "tf" and spec["kw"].get("input_value", "close") not in ("open", "high", "low", "close", "volume"):
        feed = "single"        # readings carried by raw candles do not survive a merge
    case = {"spec": spec, "cfg": {}, "rows": rows, "late": late, "feed": feed,
            "meta": {"kind": kind, "n": n, "late": late, "feed": feed}}
    if feed == "tf":
        case["tfk"] = rng.choice([2, 3])
    if feed == "recalc":
        case["recalc_op"] = rng.choice(["recalculate", "purge", "index"])
        case["recalc_idx"] = [rng.randrange(0, 4), rng.randrange(0, 1000)]
    return case


def run(ctx: core.Ctx, prop: str, kinds: List[str], n_quick: int, n_thorough: int) -> int:
    proof = C.check_props(prop)
    ctx.proof_broken.extend(proof["broken"])
    rng = ctx.rng("cases")
    corr = E.Corr(ctx, prop)
    dist: Dict[str, int] = {}
    cases = [c["case"] for c in E.load_corpus(prop)]
    n_corpus = len(cases)
    for _ in range(ctx.n(n_quick, n_thorough)):
        cases.append(gen_case(rng, ctx, kinds))
    spec_terms, spec_metas, pows = [], [], set()
    for c in cases:
        ctx.count("eval_falsifier")
        falsify(ctx, c)
        corr.add(c["spec"], {}, c["rows"], [("calculate",)], rng, c.get("meta"))
        if c["spec"]["kind"] in SPEC_KINDS and c["spec"]["kw"].get("input_value") not in ("zsrc",):
            try:
                probe = X.build(c["spec"], [], {})
                spec_terms.append(spec_term(c["spec"], probe, c["rows"]))
                spec_metas.append(c)
                pows.update(X.pow_entries(c["spec"], probe))
                ctx.count("eval_spec_correspondence")
            except Exception:  # noqa
                pass
        k = c["spec"]["kind"]
        dist[k] = dist.get(k, 0) + 1
        if c.get("late"):
            dist["late-input"] = dist.get("late-input", 0) + 1
        dist["feed=" + c.get("feed", "batch")] = dist.get("feed=" + c.get("feed", "batch"), 0) + 1
        ctx.seen({"spec": c["spec"], "rows": c["rows"]}, len(c["rows"]) >= 2 * c["spec"]["kw"].get("period", 2))
        if len(ctx.samples) < 3 and len(c["rows"]) > 10:
            ctx.sample({"spec": c["spec"], "n": len(c["rows"]), "late": c.get("late"), "first_rows": c["rows"][:2]})
    corr.run()
    if spec_terms:
        bad, errs = C.run_shards(prop, "spec", spec_terms, "spec_case POW", "check_spec POW", pow_table=sorted(pows))
        for e in errs:
            ctx.corr_disagreements.append({"relation": "check_spec (Run/Check.v) failed to evaluate", "log": e})
        for b in bad[:6]:
            ctx.corr_disagreements.append({"relation": "check_spec: recurrence specification (Spec/Steppers.v) != implementation column",
                                           "spec": spec_metas[b]["spec"], "rows": spec_metas[b]["rows"]})
        ctx.coverage.update({"spec_correspondence_cases": len(spec_terms), "spec_correspondence_disagreements": len(bad) + len(errs)})
    ctx.coverage.update({"input_distribution": dist, "corpus_cases": n_corpus,
                         "nontrivial_rule": "stream at least twice as long as the indicator's period",
                         "tolerance_rule": "per field: absolute tolerance scaled by 10^(4-round_value) plus 1e-7 relative; "
                                           "presence (None vs value) must match exactly"})
    return core.finish(ctx, proof)


def replay(ctx: core.Ctx, rep: Dict) -> int:
    failed = falsify(ctx, rep["replay"]["case"])
    print("REPRODUCED" if failed else "NOT-REPRODUCED")
    return 1 if failed else 0
