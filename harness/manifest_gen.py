"""Regenerates /verif/MANIFEST.json from the table below (kept in one place so that the
manifest stays valid and in step with the checks that exist)."""
import json
from pathlib import Path

VERIF = Path(__file__).resolve().parent.parent

COMMON_NOTE = ("Trusted: Coq 8.16.1 kernel + vm_compute (no native_compute); axioms per theorem as listed in the evidence "
               "file (Print Assumptions); hand-written Gallina model tied to /repo by a sampled, bit-exact correspondence "
               "check run on every invocation; falsifier = the property stated over the implementation (testing, supports "
               "the search for a failing input only). ")

CHECKS = {
    "C03": dict(
        text="Theorems over the model of CandleManager.collapse_candles for every stream with non-decreasing timestamps, every positive "
             "timeframe length, every payload and merge function, every split into a collapsed prefix and appended rest: collapse = "
             "right-closed right-labelled resampling; re-collapse = resampling of the whole stream; output on the grid and strictly "
             "increasing; errors only on decreasing labels; additive measures (volume) conserved; bucket = open first / fold max / fold "
             "min / close last / fold +. The model is tied to the code by running both on the same construction/append/collapse "
             "sequences and comparing timestamps, OHLCV, clean values and tags bit for bit.",
        note="Timestamps are integer seconds on the naive axis (sub-second parts and missing timestamps outside the model); process TZ "
             "forced to UTC here (C18 covers other zones). All six theorems are closed under the global context (no axioms).",
        technique="Coq proof (induction over the collapse loop with a label invariant) + vm_compute correspondence + falsifier",
        design="5/C03"),
}

CHECKS["C18"] = dict(
    text="The model buckets on the naive wall-clock axis and has no zone parameter, so zone independence of the model is definitional; "
         "proved in Coq: bucketing by way of the local-time/epoch conversion (the pre-repair mechanism, finding F6) agrees with naive "
         "bucketing for all timestamps iff the zone offset is a multiple of the timeframe, with a refutation witness for a half-hour zone. "
         "That the running code equals the zone-free model is decided by executing the same construction/append sequences in "
         "subprocesses under eight TZ values (UTC, half-hour, 45-minute and DST zones, streams on and off transition days) and comparing "
         "every collapsed candle with the model bit for bit and across zones.",
    note="Partial by nature: the OS time-zone database and the C library's local-time conversion are oracles no Gallina model can "
         "exhibit; the theorem covers constant offsets, the execution covers the real zones on the sampled streams.",
    technique="Coq proof about the bucketing arithmetic + vm_compute correspondence executed under 8 time zones + cross-zone falsifier",
    design="5/C18")

CHECKS["C11"] = dict(
    text="Theorems over the model of CandlestickType.conversion/HeikinAshi for every NumOps instance (hence for the binary64 instance the "
         "correspondence executes): converting raw candles yields the HA recurrence of the property text, tags all, keeps raw values in "
         "clean_values and clears readings; convert(convert xs ++ ys) = convert(xs ++ ys) for any xs incl. empty/singleton (each candle "
         "converted exactly once, any append schedule on the base timeframe); conversion of candle i depends on candles <= i only; a raw "
         "candle merged into a converted bucket is merged into its raw values; the pre-repair resume index (finding F4) is refuted; "
         "and composed with a collapsing timeframe: mgr_append cfg (tasks cfg xs) ys = tasks cfg (xs ++ ys) for the whole pipeline "
         "(collapse, convert from the resume index), any sorted raw stream and any split - and likewise for collapse, fill, convert. "
         "Correspondence: manager with HA, with/without timeframe and fill, states compared bit for bit incl. clean values and tags. "
         "Falsifier: recurrence, tags and recoverable raw values after every schedule - on a manager, on a Heikin-Ashi Hexital whose members live on two managers, "
         "and on two indicators that were handed one and the same HeikinAshi object.",
    note="candles_lifespan in the composed pipeline statement is covered by correspondence + falsifier, not by the "
         "theorem. Axioms: none.",
    technique="Coq proof (induction over the conversion loop, resume-index lemmas) + vm_compute correspondence + falsifier",
    design="5/C11")
CHECKS["C12"] = dict(
    text="Theorems over the model of fill_missing_candles for every payload type: whenever it returns, the output is the input with every "
         "gap filled by candles exactly one timeframe apart built from their predecessor (inductive relation Filled), hence contiguous, "
         "real buckets preserved in order, inserted candles flat at the predecessor's raw close with volume 0 and no readings; on every "
         "stream with non-decreasing timestamps collapse-then-fill returns (the Python loop's only non-termination case, a list that is "
         "not strictly increasing on the grid, is unreachable); and schedule independence: mgr_append cfg (tasks cfg xs) ys = tasks cfg "
         "(xs ++ ys) for the manager with timeframe and fill, any sorted raw stream and any split - also with Heikin-Ashi on top (collapse, fill, convert: fill "
         "candles flat at the raw close of their predecessor on every schedule) and with a lifespan (collapse, fill, trim). Correspondence and falsifier as for C03 with fill on, incl. schedule "
         "independence against a batch twin (with and without Heikin-Ashi), and the same stream through a Hexital without a timeframe whose "
         "member asks for one (the Hexital's fill flag governs) against the standalone manager.",
    note="Fill, Heikin-Ashi and lifespan all together under appends is decided by correspondence + falsifier (fill + HA and fill + lifespan are proved). Axioms: none.",
    technique="Coq proof (inductive fill relation) + vm_compute correspondence + falsifier",
    design="5/C12")
CHECKS["C15"] = dict(
    text="Clause 1 proved: trim_candles on a time-ordered list = filter (ts >= newest - lifespan), the newest candle always survives, and "
         "after every construction/append of a manager the retained candles are exactly that window of the collapsed (and filled) "
         "candles; the window is the same for every append schedule: mgr_append cfg (tasks cfg xs) ys = tasks cfg (xs ++ ys) for the "
         "manager with timeframe and lifespan, also with gap filling (timeframe + fill + lifespan). Clause 2 for one reading: for SMA, EMA, RMA, WMA, VWMA, ROC, TR, OBV, Counter, HLA the value computed at an index is "
         "the same with or without a trimmed prefix that leaves the class's look-back; and for a whole calculate() of these classes and of HL, Donchian, AROON: on the retained "
         "candles (at least two, all calculated, the look-back retained) followed by new raw candles it computes exactly what it computes on the "
         "untrimmed list - readings and exception - so the statement applies again after every later append and trim. Correspondence: manager with lifespan, all timeframe/fill variants (check_mgr) and every indicator kind fed candle by "
         "candle under a lifespan that always keeps its look-back (check_ind); falsifier: window against an untrimmed twin after every "
         "append, and readings on the retained candles equal to the untrimmed twin's for all 27 kinds - with the class's look-back plus "
         "slack retained, and, for the indicators that are purely recursive once seeded, on a stream that thins out after warm-up so "
         "that the window holds only two or three candles (one predecessor).",
    note="Clause 2 is also proved at run level for VWAP, StandardDeviation and RSI (one managed helper series; look-back 1 resp. period candles). Clause 2 is proved for thirteen classes without helper series (the ten of the one-reading theorem plus HL, Donchian, AROON: a whole calculate() on the retained list); "
         "for the other classes it is decided by correspondence + falsifier. Axioms: none.",
    technique="Coq proof (drop-while = filter on sorted lists) + vm_compute correspondence + falsifier",
    design="5/C15")

ENGINE_TIE = ("Tie to the code: the hand-written model of the whole indicator engine and of all 27 _calculate_reading bodies "
              "(Model/Engine.v) is executed over binary64 (vm_compute) on the same construction/calculate/append sequences as the "
              "implementation and every reading on every candle is compared bit for bit on each run. ")

CHECKS["C01"] = dict(
    text="Theorems about the faithful engine model (resume index, skip-if-present, in-place set_reading): for every leaf indicator whose "
         "_calculate_reading is pure and causal, any split of a stream into append chunks - into an empty or an already calculated "
         "indicator - ends in exactly the store (or exception) of one calculate() over the whole stream (canonical causal semantics, "
         "proved by induction over the loop for all streams, lengths and chunkings), and on a collapsing timeframe the re-collapse "
         "of calculated buckets followed by new raw candles, then calculate(), gives the batch result on the resampled whole stream "
         "- also with Heikin-Ashi conversion between collapse and indicator, with gap filling (collapse + fill), and with gap filling and "
         "Heikin-Ashi together (collapse, fill, convert): a structural theorem shows that an append leaves a prefix of the stored series "
         "untouched and rebuilds the rest from fresh candles, on which both sides agree. First composite: for a parent with a pure reading "
         "function and one leaf helper (ATR over its true-range series, all obligations discharged) every chunked run ends in the "
         "result of one successful calculate() over the whole stream. Indicators that keep their running state in one managed helper "
         "series (VWAP, StandardDeviation, RSI: _calculate_reading writes the helper's slot of the same candle, reads it back, may write "
         "it again): an engine theorem for this shape (Proofs/DataSlot.v) with the per-class obligation discharged - any chunking ends in "
         "exactly the store or the exception of one calculate() over the whole stream, also on a collapsing timeframe (re-collapse, then calculate); "
         "and a composite over such a helper, StandardDeviationThreshold over its StandardDeviation series: every chunked run ends in the result of one successful calculate(). "
         "The two obligations are discharged for HLA, TR, OBV, EMA, SMA, RMA, WMA, VWMA, ROC, Counter, HL, Donchian, AROON and every Amorph-wrapped analysis "
         "function (all periods >= 1, all inputs not reading the own slot). " + ENGINE_TIE +
         "Falsifier: incremental vs batch deep equality over all 27 kinds + Amorph wrappers, base/S/T/H/D timeframes, fill, HA.",
    note="Proved for leaf indicators on the base and on collapsing timeframes, with or without gap filling and Heikin-Ashi (the lifespan is not in the engine-level composition); for the "
         "other composite kinds (helper series with sub-indicators of their own, several or nested helpers) the property is decided by correspondence + falsifier. Axioms: none.",
    technique="Coq proof (canonical-semantics induction over the calculate loop; per-indicator causality lemmas) + vm_compute correspondence + falsifier",
    design="5/C01")
CHECKS["C02"] = dict(
    text="Theorems (same model and scope as C01): calculate() over ds ++ more extends calculate() over ds (batch causality: no "
         "look-ahead), appending to a calculated indicator leaves every existing candle and reading untouched (no repaint), and on a "
         "collapsing timeframe every bucket but the last (open) one keeps its readings when more candles arrive - with gap filling too (closed "
         "buckets and the fill candles between them); batch causality also for "
         "the composite ATR (parent over its helper series), and both statements for VWAP, StandardDeviation and RSI (one managed helper series; closed buckets final on a timeframe too), batch causality for StandardDeviationThreshold. "
         + ENGINE_TIE + "Falsifier: snapshot(t) minus the open bucket is a prefix of snapshot(t') on live appends, batch-on-prefix vs batch-on-whole.",
    note="Leaf indicators with discharged obligations (see C01); other kinds by correspondence + falsifier. Axioms: none.",
    technique="Coq proof (prefix stability of the canonical semantics) + vm_compute correspondence + falsifier", design="5/C02")
CHECKS["C04"] = dict(
    text="Theorems over the reals (round-half-even on round_value decimals, Flocq) about the recurrence specifications of SMA/EMA/RMA/WMA: "
         "EMA and RMA obey r[t] = a x[t] + (1-a) r[t-1] within half a unit of the last decimal, SMA its incremental law, seeds are the "
         "rounded window mean, WMA is the rounded weighted mean with weights period..1 over period(period+1)/2, the series HMA smooths is 2*WMA(period/2) - WMA(period), the first SMA/EMA reading and every WMA reading lie inside any grid interval containing the window, no reading before `period` "
         "consecutive inputs, EMA stays inside the range of its inputs, and (for every "
         "NumOps instance) position independence. The recurrence specs are tied to the code by their own bit-exact correspondence "
         "(check_spec) and the engine model by check_ind; falsifier = independent textbook references incl. late-starting and zero-valued inputs.",
    note="Binary64 rounding error, overflow and NaN are outside the real-number theorems. VWMA/HMA and the decay-weighted RMA seed: "
         "correspondence + falsifier only. Axioms: the standard library's real-number axioms (ClassicalDedekindReals.sig_forall_dec, "
         "sig_not_dec), Classical_Prop.classic and FunctionalExtensionality.functional_extensionality_dep, via Reals/Flocq.",
    technique="Coq proof over R with Flocq rounding + two vm_compute correspondences + reference falsifier", design="5/C04")
CHECKS["C05"] = dict(
    text="Theorems over the reals: the true range dominates high-low and both gap distances and is >= 0, the TR reading is >= the rounded "
         "high-low, ATR's Wilder step keeps it >= 0. Theorem about the faithful engine, every numeric instance: the readings of a Counter "
         "over any stream are the run lengths of its input (candles without input neither extend nor break the run). Theorem (engine, "
         "reals): the threshold flag is False without a sigma reading and otherwise True exactly when |x[i]-x[i-1]| > multiplier*sigma. "
         "Theorem (analysis model, reals): highest/lowest - the building blocks of Donchian and Highest/Lowest - return an element of the "
         "window of number-like readings that bounds every element of it; the rolling update of the stored mean and variance is exact "
         "(algebraic identity) and the standard-deviation reading is the square root of exactly that updated variance; Bollinger = "
         "SMA +/- 2 sigma and Keltner = EMA +/- multiplier*ATR as assembled from the helper readings. "
         "All eleven indicators of the property are tied by the bit-exact engine "
         "correspondence and compared with independent reference implementations (presence exactly, values within a stated tolerance) - computed in one batch, "
         "fed candle by candle, and on a collapsing timeframe fed candle by candle (reference over the independently resampled candles).",
    note="TR, ATR, Counter, the threshold rule, the window extremes, the rolling-variance update and the band assemblies have theorems; "
         "that the stored mean/variance ARE those of the window along a whole stream (the identity iterated, with the helper's "
         "rounding), Donchian/HL/HLA assembly and Supertrend's ratchet are decided by correspondence + reference falsifier. Real-number axioms as for C04 (none for the Counter theorem).",
    technique="Coq proof over R + vm_compute correspondence + reference falsifier", design="5/C05")
CHECKS["C06"] = dict(
    text="Theorems: RSI = 100 - 100/(1+gain/loss) lies in [0,100] and is 100 when the average loss is 0, Wilder's averages stay >= 0 "
         "(reals); OBV's step law (unchanged / +volume / -volume by the close) for every NumOps instance; VWAP over a whole stream = rounded "
         "ratio of the cumulative sums of volume*typical price and volume; ROC = percentage change against the input `period` steps "
         "back; the MACD line is fast EMA - slow EMA (engine model). All nine indicators: bit-exact "
         "engine correspondence + recurrence-spec correspondence (RSI, ROC, OBV, VWAP) + independent references (batch, candle by candle, and candle by candle on a collapsing timeframe).",
    note="MACD, STOCH, TSI, AROON, ADX: correspondence + reference falsifier only (single-reading relations of MACD/AROON are in C10). Real-number axioms as for C04.",
    technique="Coq proof over R / generic NumOps + vm_compute correspondences + reference falsifier", design="5/C06")
CHECKS["C07"] = dict(
    text="Theorem: every recurrence specification computes a reading from a state and the newest candle only, and the state's buffer never "
         "exceeds the indicator's window whatever the history (all NumOps instances); in the engine model, the loop of calculate() "
         "instrumented with an invocation counter (proved to return the loop's own result) makes exactly k _calculate_reading "
         "invocations after k candles are appended to a calculated leaf indicator, whatever the history length - likewise for VWAP, StandardDeviation and RSI (one managed helper series). The specs reproduce the implementation bit for bit "
         "(check_spec, run in C04-C06). Falsifier: executed-line counts (line tracer; def headers and repeated reports of one line excluded) inside indicator/analysis/utils code for the "
         "same trailing appends after histories of 150/600(/2400) candles must be identical, for every kind, Hexitals, always-None readings and "
         "manager settings (timeframe with and without gap filling, Heikin-Ashi, lifespan); a difference is a violation when the work keeps "
         "growing on a still longer history (a bounded one-off difference is a data-dependent branch, counted in the evidence).",
    note="Partial: CPU time is outside any Gallina model; the theorem bounds the state of the recurrence form, the tie to real execution "
         "is the line-count measurement on sampled histories. Specs exist for 11 of 27 kinds. Axioms: none.",
    technique="Coq proof (bounded state of the step functions) + line-count falsifier", design="5/C07")
CHECKS["C08"] = dict(
    text="Theorems about the Hexital model: a member on its own manager behaves exactly like the standalone indicator with the same "
         "manager configuration (values and exceptions); members sharing a manager never alter candle OHLCV/timestamps nor each "
         "other's entries (engine frame theorem, all 27 kinds); a member without helper series that shares a manager with any other "
         "members has, candle by candle, the entries of its standalone twin (non-interference theorem, also on a shared collapsing / filled / converted / trimmed manager); candle management ignores readings "
         "(collapse, fill, conversion and trimming of lists that agree up to readings agree again and raise alike), so along any program of "
         "append / calculate / purge / recalculate / calculate_index / remove_indicator / add_indicator the Hexital's managers agree with a "
         "bare dictionary of candle managers given the same appends; and in a Hexital without timeframe and lifespan of its own (HA and fill free) every "
         "member timeframe holds, up to readings, the candles of a standalone CandleManager with the member's effective settings built over the "
         "stream as it was when the timeframe appeared (construction or later add_indicator) and given every later chunk; end to end for a member B "
         "without helper series: among any other members on any timeframes, along any program of append / calculate of anything / purge, recalculate, "
         "calculate_index, remove_indicator aimed at others / add_indicator, B's manager holds candle by candle the timestamps, values and readings of "
         "a standalone twin given the same candles and calculate() calls. Tie: the Hexital model run against hexital.Hexital (check_hx). "
         "Falsifier: member vs standalone twin fed the same schedule, object/"
         "dict/settings forms, Hexital-level timeframe/fill/lifespan/HA, member timeframes that need not divide one another, base candles unaltered.",
    note="The Hexital model (construction incl. own-timeframe seeding, append and all maintenance operations) is executed against "
         "hexital.Hexital bit for bit (check_hx); equality of members WITH helper series sharing one "
         "manager with their standalone twins is decided by the falsifier. Known findings K2 (lifespan + own timeframe seeded from trimmed candles) and K3 (Hexital timeframe + fill: own timeframe seeded from filled candles). Axioms: none.",
    technique="Coq proof (engine frame theorem, single-member refinement) + vm_compute correspondence of the Hexital model + falsifier", design="5/C08")
CHECKS["C09"] = dict(
    text="Theorems over the reals: no step of the TR, ATR, HLA, OBV, VWAP, EMA recurrence can raise (every divisor non-zero), RSI never "
         "divides by a zero loss; at the level of whole series, on every stream the specifications of TR, ATR, HLA, OBV, VWAP and - given the "
         "input on every candle - SMA, EMA, RMA, WMA, RSI return a series as long as the stream, made of None and numbers only, with no gap "
         "once a number has appeared (state invariants: SMA's window, RSI's non-negative averages; RMA's seed divisor >= 1); ROC does so "
         "when no input is zero, and a zero base is refuted with a witness (K1). " + ENGINE_TIE + "Falsifier: degenerate regimes (flat, monotone, equal closes, tiny/micro moves, zero "
         "volume, fill candles), price inputs and inputs that are other readings starting late (plain and dict-valued): no exception, all values finite, no gap after the first value of each output field.",
    note="Finiteness is immediate in R; binary64 overflow is outside the theorem. Other kinds: correspondence (exceptions compared as an "
         "enum) + falsifier. Known finding K1 (ROC over a zero-valued input). Real-number axioms as for C04.",
    technique="Coq proof over R + vm_compute correspondence + falsifier on degenerate streams", design="5/C09")
CHECKS["C10"] = dict(
    text="Theorems over the reals, exact because rounding is monotone and fixes the grid: RSI in [0,100], TR >= rounded high-low >= 0, "
         "ATR >= 0, EMA inside the range of its inputs, stored readings are fixed points of rounding; and about the engine's own "
         "_calculate_reading models, any store and index: Aroon up/down in [0,100] with oscillator = up - down, Donchian middle = mean "
         "of its bounds and between them, the Donchian channel enclosing the candle's own high and low, Keltner and Bollinger band order, MACD histogram = MACD - signal, Supertrend direction/long/"
         "short/trend, Stochastic oscillator value in [0,100] for inputs between the candle's low and high; TSI's ingredients: an EMA over "
         "a series dominated by another stays dominated at the seed, at every step and through rounding, and 100*s/a lies in [-100,100] when |s| <= a; ADX's ingredients: DX in [0,100], Wilder's step keeps [0,100]. " + ENGINE_TIE +
         "Falsifier: every relation of the property text on the implementation's output (also after recomputation); Counter is judged against its input on the same candle, "
         "also as a member registered through add_indicator after the member it counts.",
    note="Stochastic k/d (averages of the oscillator), the assembly of ADX from DX (and the decay-weighted seed of its Wilder average) and of TSI from its two double-smoothed series, the accumulation of rounding in the identities after the final rounding: "
         "correspondence + falsifier. Real-number axioms as for C04.",
    technique="Coq proof over R + vm_compute correspondence + relation falsifier", design="5/C10")
CHECKS["C13"] = dict(
    text="Theorem (frame property, by induction over the engine interpreter and case analysis of all 27 _calculate_reading models): "
         "calculate, calculate_index (+/- index), managed set_reading and every reading computation leave the candles' number, "
         "timestamps, OHLCV, clean values, tags and every dictionary entry not named in the indicator's own tree exactly as they were; "
         "purge removes exactly the tree's entries. Read half: the _calculate_reading of each of the 14 classes without helper series "
         "depends only on OHLCV and the readings it names; non-interference theorem: for a top-level leaf B and any other indicators "
         "whose tree names B neither reads nor owns, B's entries are identical along every paired history (same appends, B calculating "
         "on both sides, the others doing anything within their frame on one side), and calculate() raises on one side iff on the other; "
         "the same with the candles going through any candle manager (collapsing timeframe, gap filling, Heikin-Ashi, lifespan in any "
         "combination: mgr_append on both sides) - timestamps, values and B's entries agree candle by candle and the next append raises alike "
         "(from a parametricity theorem: candle management respects any reflexive relation that implies equal values, clean values and tags); "
         "for B = VWAP, StandardDeviation or RSI (one managed helper series) the same statement over the relation same-for-B (timestamp, OHLCV, the readings the class looks at, B's and its helper's entries) - calculate() respects it, so B ends with the same readings along every paired history; "
         "at the level of the container: two Hexitals with different other members and different programs that hand B the same candles and "
         "the same calculate() calls leave B with the same candles and readings. "
         "Tie: the Hexital model (two members, the operations aimed at one of them) run "
         "against hexital.Hexital on the same histories (check_hx). Falsifier: B alone vs with A in both orders, and purge/recalculate/"
         "remove of A at the end and in the middle of the stream, incl. targeted pairs (substring names, X / X_<suffix> names, helper "
         "families, BBANDS helpers, siblings of one class that differ in a single parameter) and members on one collapsing timeframe.",
    note="Non-interference is proved for B without helper series (any A); for a composite B the read half is decided by correspondence "
         "+ falsifier. Axioms: none.",
    technique="Coq proof (frame theorem, reads-only theorem, simulation of the engine loop) + vm_compute correspondence of the Hexital model + falsifier", design="5/C13")
CHECKS["C14"] = dict(
    text="Theorems: purge removes every entry of the indicator tree at any depth and nothing else (timestamps, OHLCV, other entries "
         "untouched); for leaf indicators with discharged obligations calculate() is idempotent, recalculate() reproduces the store "
         "it replaced, calculate_index on a computed index (+/-) leaves the store unchanged, and every program over append/calculate/"
         "purge/recalculate/such recomputations ends in a state on which calculate() equals one calculate() over all candles appended; "
         "calculate() is idempotent for the composite ATR as well; for VWAP, StandardDeviation and RSI (one managed helper series) all of these - "
         "idempotence, recalculate, calculate_index on a computed index, convergence of programs - are proved too (purge removes reading and helper series); idempotence also for StandardDeviationThreshold. " + ENGINE_TIE +
         "(incl. calculate/calculate_index/recalculate/purge sequences; every operation program also runs on the Hexital model, check_hx). Falsifier: idempotence, recalculate fixpoint, purge exactness, calculate_index "
         "on computed indices (+/-), and random programs over append/calculate/purge/recalculate/calculate_index/add/remove on Hexitals "
         "(also members sharing helpers) ending in calculate() = batch state; recalculate([name]) must leave the whole table of readings as it was.",
    note="For composite indicators and for add/remove on a Hexital, convergence of operation programs to the batch state is decided by "
         "correspondence + falsifier. Axioms: none.",
    technique="Coq proof (purge exactness, idempotence via canonical semantics) + vm_compute correspondence + program falsifier", design="5/C14")
CHECKS["C16"] = dict(
    text="Theorems for all 16 movement and 4 pattern functions, every argument, every candle list (whatever readings it carries) and every "
         "valid index: evaluating at index i = evaluating at the default position on the list truncated after i (value or exception "
         "alike), = evaluating at the negative index; Amorph's reading at i is the function at i. Tie: Model/Analysis.v executed over "
         "binary64 against hexital.analysis on thousands of (function, arguments, index) probes incl. bools, dicts, out-of-range "
         "indices. Falsifier: the three equalities + no exception on missing readings + Amorph live vs batch column, with planted pattern witnesses.",
    note="Names must have at most one dot (hypothesis wf_afun; otherwise both code and model raise ValueError). 'Never raises on missing "
         "readings' is decided by correspondence + falsifier. Axioms: none.",
    technique="Coq proof (truncation lemmas for Python indexing/slicing) + vm_compute correspondence + falsifier", design="5/C16")
CHECKS["C17"] = dict(
    text="Theorems: candle geometry identities over the reals and their invariance under positive scaling and shifting; above/below are "
         "strict and false on a missing reading; crossover/crossunder = above/below now and the opposite one candle earlier. Tie as C16. "
         "Falsifier: reference predicates written from the docstrings for every movement function (indices >= 1, ties, missing and zero "
         "readings), geometry on random candles, planted pattern witnesses with 2x margins, single-clause counter-witnesses, scaled/shifted copies.",
    note="The windowed functions' documented meaning and the pattern shapes are decided by reference falsifier + correspondence. Real-number axioms as for C04 (geometry theorems only).",
    technique="Coq proof over R / generic NumOps + vm_compute correspondence + reference falsifier", design="5/C17")
CHECKS["C19"] = dict(
    text="Theorems: calculating never alters a candle's timestamp, OHLCV, clean values or tag (frame theorem, all 27 kinds); the Candle / "
         "dict / list(ts first) / list(ts last) encodings decode to the same candle; Hexital.append hands every manager it holds - also "
         "one whose indicators were all removed - exactly what that manager's own append of the same candles gives, and no member "
         "operation (calculate, purge, recalculate, calculate_index, remove_indicator) drops a manager or touches its candle data. "
         "Tie: the Hexital model run against hexital.Hexital over remove/append/add programs (check_hx). Falsifier: deep state snapshot before/after every "
         "read accessor of Indicator and Hexital interleaved with appends, object usable afterwards and equal to an unread twin; "
         "encodings give identical Hexital state on every timeframe and leave the caller's containers untouched; members come and go "
         "while candles arrive, and every manager (orphaned ones too) equals a standalone CandleManager fed the whole stream.",
    note="Partial: in a functional model the read accessors cannot have side effects, so purity of the code's accessors is decided by "
         "the falsifier only; the decode model is not executed against the code (the Hexital model is). Axioms: none.",
    technique="Coq proof (frame theorem; decode equalities; delivery to every manager) + vm_compute correspondence of the Hexital model + state-snapshot falsifier", design="5/C19")
CHECKS["C20"] = dict(
    text="Theorems about the accessor models for every NumOps instance: negative and positive index address the same candle; "
         "reading_by_index = Indicator.reading on valid indices and None otherwise; as_list is the column of readings; has_reading = "
         "latest reading is not None; reading_count = trailing run of readings. Tie: check_acc - the accessor models (as_list, reading, "
         "read_candle, reading_count, has_reading, Hexital.reading/prev_reading/has_reading) re-compute on the candles of a calculated "
         "Hexital every answer the implementation gave (plain, dotted and holed series, positive/negative indices). Falsifier: all accessors of Indicator and Hexital "
         "(plain and dotted names, all members and timeframes incl. filled ones longer than the default series) against direct candle inspection.",
    note="Members on their own timeframe are probed by the falsifier only (the accessor correspondence takes a member of the default "
         "manager). Axioms: none.",
    technique="Coq proof (Python-indexing lemmas) + vm_compute correspondence of the accessor models + falsifier", design="5/C20")

NOT_YET = {}


def main():
    props = [json.loads(l) for l in (VERIF / "properties.jsonl").read_text().splitlines() if l.strip()]
    checks = []
    na = []
    for p in props:
        pid = p["id"]
        if pid in CHECKS:
            c = CHECKS[pid]
            checks.append({
                "property_id": pid,
                "quick_cmd": f"./check {pid} --tier quick",
                "thorough_cmd": f"./check {pid} --tier thorough",
                "evidence_file": f"/verif/evidence/{pid}.json",
                "replay_cmd_template": f"./check {pid} --replay {{path}}",
                "engine": "coq-model",
                "level_claimed": {"category": "proof", "text": c["text"], "design_ref": c["design"]},
                "level_note": COMMON_NOTE + c["note"],
                "technique": c["technique"],
            })
        else:
            na.append({"property_id": pid, "reason": NOT_YET.get(pid, "check not built yet (work in progress; see DESIGN.md section 7 for the order of work)")})
    m = {
        "version": 1,
        "setup_cmd": "./setup.sh",
        "hooks": {"guard": "HEXITAL_VERIF", "enable": "no source hooks are needed: every check observes the library from outside",
                  "baseline_off_cmd": "cd /repo && /venv/bin/python -m pytest -ra -q -p no:cacheprovider --timeout=900 --continue-on-collection-errors",
                  "source_commits": [], "add_only": True},
        "engines": [{"name": "coq-model", "path": "/verif/coq", "serves_properties": sorted(CHECKS),
                     "kind_free_text": "Coq 8.16.1 development: executable Gallina model of Hexital, theorems per property, correspondence by vm_compute on generated case files"}],
        "checks": checks,
        "notes": "See DESIGN.md. ./check <id> --tier quick|thorough; VERIF_SEED seeds the single PRNG.",
        "not_applicable": na,
    }
    (VERIF / "MANIFEST.json").write_text(json.dumps(m, indent=1))


if __name__ == "__main__":
    main()
