"""Regenerates /verif/MANIFEST.json from the table below (kept in one place so that the
manifest stays valid and in step with the checks that exist)."""
import json
from pathlib import Path

VERIF = Path(__file__).resolve().parent.parent

COMMON_NOTE = ("Trusted: Coq 8.16.1 kernel + vm_compute (no native_compute); axioms per theorem as listed in the evidence "
               "file (Print Assumptions); hand-written Gallina model tied to /repo by a sampled, bit-exact correspondence "
               "check run on every invocation; falsifier = the property stated over the implementation (testing, supports "
               "the search for a failing input only). ")

CHECKS = {
    "C03": dict(
        text="Theorems over the model of CandleManager.collapse_candles for every stream with non-decreasing timestamps, every positive "
             "timeframe length, every payload and merge function, every split into a collapsed prefix and appended rest: collapse = "
             "right-closed right-labelled resampling; re-collapse = resampling of the whole stream; output on the grid and strictly "
             "increasing; errors only on decreasing labels; additive measures (volume) conserved; bucket = open first / fold max / fold "
             "min / close last / fold +. The model is tied to the code by running both on the same construction/append/collapse "
             "sequences and comparing timestamps, OHLCV, clean values and tags bit for bit.",
        note="Timestamps are integer seconds on the naive axis (sub-second parts and missing timestamps outside the model); process TZ "
             "forced to UTC here (C18 covers other zones). All six theorems are closed under the global context (no axioms).",
        technique="Coq proof (induction over the collapse loop with a label invariant) + vm_compute correspondence + falsifier",
        design="5/C03"),
}

CHECKS["C18"] = dict(
    text="The model buckets on the naive wall-clock axis and has no zone parameter, so zone independence of the model is definitional; "
         "proved in Coq: bucketing by way of the local-time/epoch conversion (the pre-repair mechanism, finding F6) agrees with naive "
         "bucketing for all timestamps iff the zone offset is a multiple of the timeframe, with a refutation witness for a half-hour zone. "
         "That the running code equals the zone-free model is decided by executing the same construction/append sequences in "
         "subprocesses under eight TZ values (UTC, half-hour, 45-minute and DST zones, streams on and off transition days) and comparing "
         "every collapsed candle with the model bit for bit and across zones.",
    note="Partial by nature: the OS time-zone database and the C library's local-time conversion are oracles no Gallina model can "
         "exhibit; the theorem covers constant offsets, the execution covers the real zones on the sampled streams.",
    technique="Coq proof about the bucketing arithmetic + vm_compute correspondence executed under 8 time zones + cross-zone falsifier",
    design="5/C18")

CHECKS["C11"] = dict(
    text="Theorems over the model of CandlestickType.conversion/HeikinAshi for every NumOps instance (hence for the binary64 instance the "
         "correspondence executes): converting raw candles yields the HA recurrence of the property text, tags all, keeps raw values in "
         "clean_values and clears readings; convert(convert xs ++ ys) = convert(xs ++ ys) for any xs incl. empty/singleton (each candle "
         "converted exactly once, any append schedule on the base timeframe); conversion of candle i depends on candles <= i only; a raw "
         "candle merged into a converted bucket is merged into its raw values; the pre-repair resume index (finding F4) is refuted. "
         "Correspondence: manager with HA, with/without timeframe and fill, states compared bit for bit incl. clean values and tags.",
    note="The composed statement 'manager with timeframe + HA under appends = convert(resample(stream))' is not yet a single theorem: "
         "its three ingredients (C03_recollapse, C11_merge_recovers_raw, C11_incremental/prefix_stable) are proved, their composition is "
         "covered by correspondence + falsifier. Axioms: none.",
    technique="Coq proof (induction over the conversion loop, resume-index lemmas) + vm_compute correspondence + falsifier",
    design="5/C11")
CHECKS["C12"] = dict(
    text="Theorems over the model of fill_missing_candles for every payload type: whenever it returns, the output is the input with every "
         "gap filled by candles exactly one timeframe apart built from their predecessor (inductive relation Filled), hence contiguous, "
         "real buckets preserved in order, inserted candles flat at the predecessor's raw close with volume 0 and no readings; on every "
         "stream with non-decreasing timestamps collapse-then-fill returns (the Python loop's only non-termination case, a list that is "
         "not strictly increasing on the grid, is unreachable). Correspondence and falsifier as for C03 with fill on, incl. schedule "
         "independence against a batch twin (with and without Heikin-Ashi).",
    note="Schedule independence of collapse+fill under appends is decided by correspondence + falsifier, not yet by a theorem "
         "(C03_recollapse covers the collapse half). Axioms: none.",
    technique="Coq proof (inductive fill relation) + vm_compute correspondence + falsifier",
    design="5/C12")
CHECKS["C15"] = dict(
    text="Clause 1 proved: trim_candles on a time-ordered list = filter (ts >= newest - lifespan), the newest candle always survives, and "
         "after every construction/append of a manager the retained candles are exactly that window of the collapsed (and filled) "
         "candles. Correspondence: manager with lifespan, all timeframe/fill variants; falsifier compares with an untrimmed twin fed the "
         "same schedule after every append.",
    note="Clause 2 (readings unchanged while the look-back is retained) is decided by the falsifier against an untrimmed twin (added with "
         "the indicator engine); no theorem yet. Axioms: none.",
    technique="Coq proof (drop-while = filter on sorted lists) + vm_compute correspondence + falsifier",
    design="5/C15")

NOT_YET = {}


def main():
    props = [json.loads(l) for l in (VERIF / "properties.jsonl").read_text().splitlines() if l.strip()]
    checks = []
    na = []
    for p in props:
        pid = p["id"]
        if pid in CHECKS:
            c = CHECKS[pid]
            checks.append({
                "property_id": pid,
                "quick_cmd": f"./check {pid} --tier quick",
                "thorough_cmd": f"./check {pid} --tier thorough",
                "evidence_file": f"/verif/evidence/{pid}.json",
                "replay_cmd_template": f"./check {pid} --replay {{path}}",
                "engine": "coq-model",
                "level_claimed": {"category": "proof", "text": c["text"], "design_ref": c["design"]},
                "level_note": COMMON_NOTE + c["note"],
                "technique": c["technique"],
            })
        else:
            na.append({"property_id": pid, "reason": NOT_YET.get(pid, "check not built yet (work in progress; see DESIGN.md section 7 for the order of work)")})
    m = {
        "version": 1,
        "setup_cmd": "./setup.sh",
        "hooks": {"guard": "HEXITAL_VERIF", "enable": "no source hooks are needed: every check observes the library from outside",
                  "baseline_off_cmd": "cd /repo && /venv/bin/python -m pytest -ra -q -p no:cacheprovider --timeout=900 --continue-on-collection-errors",
                  "source_commits": [], "add_only": True},
        "engines": [{"name": "coq-model", "path": "/verif/coq", "serves_properties": sorted(CHECKS),
                     "kind_free_text": "Coq 8.16.1 development: executable Gallina model of Hexital, theorems per property, correspondence by vm_compute on generated case files"}],
        "checks": checks,
        "notes": "See DESIGN.md. ./check <id> --tier quick|thorough; VERIF_SEED seeds the single PRNG.",
        "not_applicable": na,
    }
    (VERIF / "MANIFEST.json").write_text(json.dumps(m, indent=1))


if __name__ == "__main__":
    main()
