"""Shared driver for the properties that involve the indicator engine: case generation
(indicator x parameters x manager configuration x stream x append schedule), snapshots,
and the model/implementation correspondence inside Coq."""
from __future__ import annotations

import copy
import json
import math
from typing import Any, Callable, Dict, List, Optional, Tuple

from . import coqrun as C
from . import core, gen, impl, mgrprop
from . import indicators as X


def gen_cfg(rng, rows_meta: Dict, allow_tf=True, allow_fill=True, allow_ha=True, allow_lifespan=False) -> Dict:
    cfg: Dict[str, Any] = {}
    r = rng.random()
    if allow_tf and r < 0.5:
        tf, tfs = gen.gen_timeframe(rng, rows_meta["step"])
        cfg["tf"] = tf
        if allow_fill and rng.random() < 0.35:
            cfg["fill"] = True
    if allow_ha and rng.random() < 0.15:
        cfg["ha"] = True
    return cfg


def gen_case(rng, ctx, kinds: List[str], allow_tf=True, allow_fill=True, allow_ha=True, regimes=None,
             max_n_quick=50, max_n_thorough=160, inputs_base=("close", "close", "src", "high", "dd.x")) -> Dict:
    kind = rng.choice(kinds)
    n = rng.choice([0, 1, 2, 3]) if rng.random() < 0.06 else rng.randint(4, max_n_thorough if ctx.thorough else max_n_quick)
    step = rng.choice([1, 5, 60, 60, 300, 3600, 86400])
    ts_mode = rng.choice(["regular", "regular", "jitter", "dups", "gaps"])
    meta = {"step": step}
    cfg = gen_cfg(rng, meta, allow_tf, allow_fill, allow_ha)
    if cfg.get("fill"):
        ts_mode = rng.choice(["regular", "gaps", "jitter"])
    base = not cfg.get("tf") and not cfg.get("ha")
    spec = X.gen_spec(rng, kind, ctx.thorough, inputs=inputs_base if base else ("close", "close", "high", "low"))
    if rng.random() < 0.15:        # a user-chosen suffix; helper series are named after the full name
        spec["name_suffix"] = rng.choice(["x", "b2", "2.5"])
    if not base and spec["kind"] == "COUNTER":
        spec["kw"]["input_value"] = rng.choice(["positive", "negative"])
    regime = rng.choice(regimes or gen.REGIMES)
    if regimes is None and spec["kind"] in ("VWMA", "VWAP", "OBV") and rng.random() < 0.5:
        regime = rng.choice(["zero_vol", "flat", "mixed"])      # runs of zero-volume candles
    rows = X.gen_rows(rng, n, regime, step=step, ts_mode=ts_mode)
    if spec["kind"] == "AMORPH" and base and n >= 12:
        from . import analysis as A_
        f_ = spec["analysis"]["f"]
        if f_ in A_.PATTERNS:
            # random candles almost never form a pattern: place its shape once inside the warm-up
            # (where the answer stays False) and once behind it
            A_.plant(rows, rng.randrange(2, 9), f_, early=True)
            A_.plant(rows, rng.randrange(10, n), f_)
    if cfg.get("fill") and rows:
        # keep the number of fill candles small
        tfs = gen.UNITS[cfg["tf"][0]] * int(cfg["tf"][1:])
        if (rows[-1]["ts"] - rows[0]["ts"]) // tfs > 400:
            cfg.pop("fill")
    if not base:
        for r in rows:
            r["inds"] = {}
    init, chunks = gen.gen_chunks(rng, rows)
    return {"spec": spec, "cfg": cfg, "rows": rows, "init": init, "chunks": chunks,
            "meta": {"kind": kind, "n": n, "step": step, "ts_mode": ts_mode, "cfg": cfg}}


def gen_pattern_tf_case(rng, ctx) -> Dict:
    """A candle-pattern wrapper on a collapsing timeframe, fed in small chunks so that buckets
    are calculated while still partial, with enough buckets for the patterns' look-back."""
    from . import analysis as A
    step = 60
    k = rng.choice([2, 3, 5])
    n = rng.randint(13 * k, 30 * k)
    f = rng.choice(A.PATTERNS)
    spec = {"kind": "AMORPH", "kw": {}, "analysis": {"f": f, "lookback": rng.choice([None, None, 5])},
            "round_value": 4}
    rows = X.gen_rows(rng, n, rng.choice(["walk", "eqclose", "tiny", "mixed"]), step=step, ts_mode="regular")
    for r in rows:
        r["inds"] = {}
    cfg = {"tf": f"T{k}"}
    init_n = rng.choice([0, 1, rng.randint(0, n // 2)])
    chunks, i = [], init_n
    while i < n:
        m = rng.choice([1, 1, 2, 3])
        chunks.append(rows[i:i + m])
        i += m
    return {"spec": spec, "cfg": cfg, "rows": rows, "init": rows[:init_n], "chunks": chunks,
            "meta": {"kind": "AMORPH", "n": n, "step": step, "ts_mode": "regular", "cfg": cfg}}


def gen_pattern_base_case(rng, ctx, k: int = 0) -> Dict:
    """A candle-pattern wrapper on the base timeframe over a stream in which the pattern's shape was
    placed inside the warm-up (index < 10, where the reading stays False whatever follows) and behind
    it; the four patterns take turns."""
    from . import analysis as A
    f = A.PATTERNS[k % len(A.PATTERNS)]
    n = rng.randint(13, 40)
    spec = {"kind": "AMORPH", "kw": {}, "analysis": {"f": f, "lookback": rng.choice([None, None, 2, 5])}, "round_value": 4}
    rows = X.gen_rows(rng, n, rng.choice(["walk", "mixed", "eqclose"]), step=60, ts_mode="regular")
    for r in rows:
        r["inds"] = {}
    A.plant(rows, rng.randrange(2, 9), f, early=True)
    A.plant(rows, rng.randrange(10, n), f)
    init, chunks = gen.gen_chunks(rng, rows)
    return {"spec": spec, "cfg": {}, "rows": rows, "init": init, "chunks": chunks,
            "meta": {"kind": "AMORPH", "n": n, "step": 60, "ts_mode": "regular", "cfg": {}}}


def gen_cross_base_case(rng, ctx, k: int = 0) -> Dict:
    """A cross / crossover / crossunder wrapper over two series that exist from the first candle on
    (raw price fields), with a window that reaches candle 0, over candles whose orientation keeps
    alternating, fed from empty in small chunks: what the first candles read must not depend on
    which candle is the newest when they are calculated."""
    from . import analysis as A
    f = A.CROSS[k % len(A.CROSS)]
    n = rng.randint(6, 30)
    a, b = rng.choice([("close", "open"), ("open", "close"), ("high", "close"), ("close", "low")])
    spec = {"kind": "AMORPH", "kw": {}, "analysis": {"f": f, "a": a, "b": b, "length": rng.choice([1, 1, 2, 4])}, "round_value": 4}
    rows = X.gen_rows(rng, n, rng.choice(["walk", "mixed"]), step=60, ts_mode="regular")
    up = rng.random() < 0.5
    for j, r in enumerate(rows):
        r["inds"] = {}
        # alternate the orientation of the candles every one or two candles
        lo_, hi_ = sorted([r["open"], r["close"]])
        if lo_ == hi_:
            hi_ = round(lo_ + 0.5, 2)
            r["high"] = max(r["high"], hi_)
        if (j // rng.choice([1, 1, 2])) % 2 == (0 if up else 1):
            r["open"], r["close"] = lo_, hi_
        else:
            r["open"], r["close"] = hi_, lo_
    init, chunks = [], []
    i = 0
    while i < n:
        m = rng.choice([1, 1, 2, 3])
        chunks.append(rows[i:i + m])
        i += m
    return {"spec": spec, "cfg": {}, "rows": rows, "init": init, "chunks": chunks,
            "meta": {"kind": "AMORPH", "n": n, "step": 60, "ts_mode": "regular", "cfg": {}}}


def snapshot(ind) -> List[Dict]:
    return [{"ts": gen.to_ts(c.timestamp) if c.timestamp is not None else None,
             "ohlcv": (c.open, c.high, c.low, c.close, c.volume),
             "inds": copy.deepcopy(c.indicators), "subs": copy.deepcopy(c.sub_indicators)} for c in ind.candles]


def same_value(a, b) -> bool:
    """Exact equality that also distinguishes types (1 vs 1.0 vs True) and handles NaN."""
    if type(a) is not type(b):
        return False
    if isinstance(a, dict):
        return a.keys() == b.keys() and all(same_value(a[k], b[k]) for k in a)
    if isinstance(a, float):
        return a == b or (math.isnan(a) and math.isnan(b))
    return a == b


def same_value_list(a: List, b: List) -> bool:
    return len(a) == len(b) and all(same_value(x, y) for x, y in zip(a, b))


def same_snapshot(a: List[Dict], b: List[Dict]) -> Optional[Tuple[int, str]]:
    """None when equal, else (candle index, what differs)."""
    if len(a) != len(b):
        return (min(len(a), len(b)), "length")
    for i, (x, y) in enumerate(zip(a, b)):
        if x["ts"] != y["ts"]:
            return (i, "timestamp")
        if not all(same_value(p, q) for p, q in zip(x["ohlcv"], y["ohlcv"])):
            return (i, "ohlcv")
        if not same_value(x["inds"], y["inds"]):
            return (i, "readings")
        if not same_value(x["subs"], y["subs"]):
            return (i, "helper-readings")
    return None


def all_values(reading) -> List:
    if isinstance(reading, dict):
        return list(reading.values())
    return [reading]


class Corr:
    """Accumulates correspondence cases of one property and evaluates them in Coq."""

    def __init__(self, ctx: core.Ctx, prop: str):
        self.ctx, self.prop = ctx, prop
        self.terms: List[str] = []
        self.metas: List[Dict] = []
        self.pows: set = set()

    def add(self, spec: Dict, cfg: Dict, init: List[Dict], ops: List[Tuple], rng, meta: Optional[Dict] = None):
        try:
            term, snaps, err, pw = X.case_term(spec, cfg, init, ops, rng)
        except Exception as e:  # noqa - the implementation's state cannot be written down as a model term
            self.ctx.corr_disagreements.append({"relation": "check_ind: the implementation's state is outside what the model can express "
                                                            f"({type(e).__name__}: {e})", "spec": spec, "cfg": cfg, "init": init, "ops": ops})
            return None, type(e).__name__
        if term is None:
            return snaps, err
        self.terms.append(term)
        self.metas.append({"spec": spec, "cfg": cfg, "init": init, "ops": ops, "meta": meta, "exc": err})
        self.pows.update(pw)
        self.ctx.count("eval_correspondence")
        return snaps, err

    def run(self):
        if not self.terms:
            return
        bad, errs = C.run_shards(self.prop, "ind", self.terms, X.CASE_TYPE, X.CHECKER, pow_table=sorted(self.pows))
        for e in errs:
            self.ctx.corr_disagreements.append({"relation": "check_ind (Run/Check.v) failed to evaluate", "log": e})
        kinds: Dict[str, int] = {}
        for i in bad:
            m = self.metas[i]
            kinds[m["spec"]["kind"]] = kinds.get(m["spec"]["kind"], 0) + 1
            if len(self.ctx.corr_disagreements) < 8:
                self.ctx.corr_disagreements.append({
                    "relation": "check_ind: model (Model/Engine.v over binary64) != implementation: readings on some "
                                "candle after construction/calculate/append differ", **m})
            else:
                self.ctx.corr_disagreements.append({"relation": "check_ind", "kind": m["spec"]["kind"]})
        self.ctx.coverage.update({"correspondence_cases": len(self.terms),
                                  "correspondence_disagreements": len(bad) + len(errs),
                                  "correspondence_disagreeing_kinds": kinds})


def record_distribution(ctx: core.Ctx, dist: Dict[str, int], case: Dict):
    m = case["meta"]
    for k in ("kind", "ts_mode"):
        dist[f"{k}={m[k]}"] = dist.get(f"{k}={m[k]}", 0) + 1
    c = case["cfg"]
    key = "cfg=" + ("tf" if c.get("tf") else "base") + ("+fill" if c.get("fill") else "") + ("+ha" if c.get("ha") else "")
    dist[key] = dist.get(key, 0) + 1
    dist[f"init={min(len(case['init']), 3)}"] = dist.get(f"init={min(len(case['init']), 3)}", 0) + 1


def load_corpus(prop: str) -> List[Dict]:
    out = []
    d = core.CORPUS / prop
    if d.exists():
        for f in sorted(d.glob("*.json")):
            out.append(json.loads(f.read_text()))
    return out
