"""Development aid: model/implementation correspondence per indicator kind."""
import sys
from . import core, indicators as X, coqrun as C, gen


def main():
    kinds = sys.argv[1].split(",") if len(sys.argv) > 1 and sys.argv[1] != "all" else X.KINDS
    n = int(sys.argv[2]) if len(sys.argv) > 2 else 12
    mode = sys.argv[3] if len(sys.argv) > 3 else "batch"
    ctx = core.Ctx("DEV", "quick", 7)
    rng = ctx.rng("dev")
    ok, log = C.coq_build()
    if not ok:
        print(log)
        return
    for kind in kinds:
        terms, metas, pows = [], [], []
        errs_py = {}
        for i in range(n):
            spec = X.gen_spec(rng, kind, inputs=("close", "close", "src", "high"))
            rows = X.gen_rows(rng, rng.choice([1, 2, 3, 8, 20, 35, 50]))
            if mode == "batch":
                init, ops = rows, [("calculate",)]
            else:
                init, chunks = gen.gen_chunks(rng, rows)
                ops = [("calculate",)] + [("append", ch) for ch in chunks]
            term, snaps, err, pw = X.case_term(spec, {}, init, ops, rng)
            if err:
                errs_py[err] = errs_py.get(err, 0) + 1
            if term is None:
                continue
            terms.append(term)
            metas.append((spec, len(rows), err))
            pows.extend(pw)
        pows = sorted(set(pows))
        bad, errs = C.run_shards("DEV", kind, terms, X.CASE_TYPE, X.CHECKER, pow_table=pows)
        print(f"{kind:11s} cases={len(terms)} disagree={len(bad)} coq_errors={len(errs)} py_exceptions={errs_py}")
        for e in errs[:1]:
            print("   ", e[-600:])
        for b in bad[:4]:
            print("    disagree:", metas[b])


if __name__ == "__main__":
    main()
