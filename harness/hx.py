"""Helpers around hexital.Hexital for the container-level properties."""
from __future__ import annotations

import copy
from datetime import timedelta
from typing import Any, Dict, List, Optional

from . import core, engprop as E, gen, impl
from . import indicators as X

from hexital import Hexital  # noqa: E402


def member(spec: Dict, tf: Optional[str] = None):
    """An indicator object without candles, optionally on its own timeframe (and then with
    the timeframe_fill flag and candlestick type the spec asks for: inside a Hexital the Hexital's own settings govern)."""
    cfg = {"tf": tf, "fill": bool(spec.get("own_fill")), "ha": bool(spec.get("own_ha"))} if tf else {}
    return X.build(spec, [], cfg)


def hexital(rows: List[Dict], members: list, cfg: Optional[Dict] = None) -> Hexital:
    cfg = cfg or {}
    kw: Dict[str, Any] = {}
    if cfg.get("tf"):
        kw["timeframe"] = gen.tf_arg(cfg["tf"], len(rows))
    if cfg.get("fill"):
        kw["timeframe_fill"] = True
    if cfg.get("ha"):
        kw["candlestick_type"] = "HA"
    if cfg.get("lifespan") is not None:
        kw["candles_lifespan"] = timedelta(seconds=cfg["lifespan"])
    return Hexital("hx", X.mk_rows(rows), members, **kw)


def hx_snapshot(h: Hexital) -> Dict[str, List[Dict]]:
    out = {}
    for name, cs in h.get_candles().items():
        out[name] = [{"ts": gen.to_ts(c.timestamp) if c.timestamp is not None else None,
                      "ohlcv": (c.open, c.high, c.low, c.close, c.volume),
                      "inds": copy.deepcopy(c.indicators), "subs": copy.deepcopy(c.sub_indicators)} for c in cs]
    return out


def same_hx(a: Dict, b: Dict):
    if a.keys() != b.keys():
        return ("managers", "keys")
    for k in a:
        d = E.same_snapshot(a[k], b[k])
        if d is not None:
            return (k, d)
    return None
