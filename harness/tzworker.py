"""Runs manager cases in a process whose TZ was set by the parent (C18)."""
import json
import sys

from . import impl


def main():
    cases = json.load(open(sys.argv[1]))
    out = []
    for c in cases:
        ops = [tuple(o) for o in c["ops"]]
        states, err = impl.run_manager(c["cfg"], c["init"], ops)
        out.append({"states": [[{"ts": s["ts"], "ohlcv": list(s["ohlcv"]), "clean": s["clean"], "tag": s["tag"]} for s in st]
                               for st in states], "err": err})
    json.dump(out, open(sys.argv[2], "w"))


if __name__ == "__main__":
    main()
