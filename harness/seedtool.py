"""Evaluate a seeded change: confirm it in its scratch worktree (tests pass, demo fails with
it and passes without), then apply it to /repo, run the named checks, and undo it.
usage: python -m harness.seedtool <worktree> <seed-id> <check> [<check> ...]"""
import json
import shutil
import subprocess
import sys
from pathlib import Path

VERIF = Path(__file__).resolve().parent.parent


def sh(cmd, cwd=None, timeout=1800):
    r = subprocess.run(cmd, shell=True, cwd=cwd, capture_output=True, text=True, timeout=timeout)
    return r.returncode, (r.stdout + r.stderr)


def main():
    wt, sid, checks = Path(sys.argv[1]), sys.argv[2], sys.argv[3:]
    out = VERIF / "seeded" / sid
    out.mkdir(parents=True, exist_ok=True)
    rc, diff = sh("git diff -- hexital", cwd=wt)
    (out / "patch.diff").write_text(diff)
    for f in ("demo.py", "meta.json"):
        if (wt / f).exists():
            shutil.copy(wt / f, out / f)
    meta = json.loads((out / "meta.json").read_text()) if (out / "meta.json").exists() else {}
    # confirm in the scratch worktree
    rc_t, o_t = sh("/venv/bin/python -m pytest -q -p no:cacheprovider --timeout=900 2>&1 | tail -1", cwd=wt)
    rc_with, o_with = sh("/venv/bin/python demo.py", cwd=wt)
    sh("git stash -q -- hexital", cwd=wt)
    rc_without, o_without = sh("/venv/bin/python demo.py", cwd=wt)
    sh("git stash pop -q", cwd=wt)
    confirmed = ("325 passed" in o_t) and rc_with != 0 and rc_without == 0
    print(f"[{sid}] tests: {o_t.strip()} | demo with change rc={rc_with} | without rc={rc_without} | confirmed={confirmed}")
    results = {}
    if confirmed:
        rc, o = sh(f"git -C /repo apply {out / 'patch.diff'}")
        if rc != 0:
            print("cannot apply to /repo:", o)
            return
        try:
            for c in checks:
                rc, o = sh(f"./check {c} --tier quick", cwd=VERIF, timeout=3000)
                lines = [l for l in o.splitlines() if l.startswith(("VIOLATION", "KNOWN-FINDING", "OK "))]
                results[c] = {"exit": rc, "lines": [l[:220] for l in lines[:4]],
                              "detail": [l.strip()[:260] for l in o.splitlines() if l.startswith("  ")][:2]}
                print(f"  {c}: exit={rc} " + (lines[0][:200] if lines else o[-300:]))
        finally:
            sh("git -C /repo checkout -- .")
            rc, o = sh("git -C /repo status --short")
            if o.strip():
                print("WARNING /repo not clean:", o)
    meta.update({"confirmed": confirmed, "ran": {"tests_with_change": o_t.strip(), "demo_with_change_exit": rc_with,
                                                  "demo_without_change_exit": rc_without},
                 "checks": results})
    (out / "meta.json").write_text(json.dumps(meta, indent=1))


if __name__ == "__main__":
    main()
