"""Re-run the checks against every kept seeded change (apply to /repo, check, undo).
usage: python -m harness.seedrun [seed-id ...]"""
import json
import subprocess
import sys
from pathlib import Path

VERIF = Path(__file__).resolve().parent.parent


def sh(cmd, cwd=None, timeout=3000):
    r = subprocess.run(cmd, shell=True, cwd=cwd, capture_output=True, text=True, timeout=timeout)
    return r.returncode, r.stdout + r.stderr


def main():
    ids = sys.argv[1:] or sorted(p.name for p in (VERIF / "seeded").iterdir() if p.is_dir())
    rc, o = sh("git -C /repo status --short")
    if o.strip():
        print("refusing: /repo is not clean")
        return
    spath = VERIF / "seeded" / "SUMMARY.json"
    # explicit ids: merge into the existing summary; no ids: start afresh
    summary = json.loads(spath.read_text()) if (sys.argv[1:] and spath.exists()) else {}
    for sid in ids:
        d = VERIF / "seeded" / sid
        prop = sid.split("-")[0][:3]
        rc, o = sh(f"git -C /repo apply {d / 'patch.diff'}")
        if rc != 0:
            print(f"{sid}: patch no longer applies: {o.strip()[:200]}")
            summary[sid] = "patch-does-not-apply"
            continue
        try:
            rc_demo, _ = sh(f"cd /repo && /venv/bin/python {d / 'demo.py'}")
            rc, o = sh(f"./check {prop} --tier quick", cwd=VERIF)
            lines = [l for l in o.splitlines() if l.startswith("VIOLATION")]
            kind = "missed" if rc == 0 else ("tie-only" if all("no-failing-input-found" in l for l in lines) else "failing-input")
            summary[sid] = {"demo_fails": rc_demo != 0, "check_exit": rc, "caught": kind}
            print(f"{sid}: demo_fails={rc_demo != 0} {prop} exit={rc} {kind}")
        finally:
            sh("git -C /repo checkout -- .")
    (VERIF / "seeded" / "SUMMARY.json").write_text(json.dumps(summary, indent=1))


if __name__ == "__main__":
    main()
