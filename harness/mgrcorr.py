"""Correspondence of the candle-manager model (Model/Manager.v, Model/Candle.v) with
hexital.core.candle_manager.CandleManager: same construction + operation sequence on
both sides, states compared after every step, bit for bit."""
from __future__ import annotations

from typing import Dict, List, Optional, Tuple

from . import coqrun as C
from . import impl

EXN_CODES = {"ZeroDivisionError": 1, "TypeError": 2, "ValueError": 3, "IndexError": 4, "KeyError": 5,
             "AttributeError": 6, "InvalidCandleOrder": 7, "CandleAlreadyTagged": 8}
TF_UNITS = {"S": 1, "T": 60, "H": 3600, "D": 86400}


def tf_seconds(tf: Optional[str]) -> Optional[int]:
    if not tf:
        return None
    return TF_UNITS[tf[0].upper()] * int(tf[1:])


def cfg_term(cfg: Dict) -> str:
    tfs = tf_seconds(cfg.get("tf"))
    return ("{| tf := %s; fillon := %s; ha := %s; lifespan := %s |}" % (
        C.optlit(tfs, C.zlit), "true" if cfg.get("fill") else "false",
        "true" if cfg.get("ha") else "false", C.optlit(cfg.get("lifespan"), C.zlit)))


def row_term(r: Dict) -> str:
    return "mkc %s %s %s %s %s %s" % (C.zlit(r["ts"]), C.numlit(r["open"]), C.numlit(r["high"]),
                                       C.numlit(r["low"]), C.numlit(r["close"]), C.numlit(r["volume"]))


def ohlcv_term(t) -> str:
    return "(mk_ohlcv %s)" % " ".join(C.numlit(x) for x in t)


def exp_cd_term(s: Dict) -> str:
    return "(%s, %s, %s, %s)" % (C.zlit(s["ts"]), ohlcv_term(s["ohlcv"]), C.optlit(s["clean"], ohlcv_term),
                                 "true" if s["tag"] else "false")


def op_term(op: Tuple) -> str:
    if op[0] == "append":
        return "(MAppend %s)" % C.listlit(op[1], row_term)
    return {"collapse": "MCollapse", "tasks": "MTasks"}[op[0]]


def case_term(cfg: Dict, init: List[Dict], ops: List[Tuple], rng=None, checkpoints: int = 4
              ) -> Tuple[str, List, Optional[str]]:
    """Run the implementation and build the Coq term carrying inputs and observed results.
    The state is compared after the last step and at a few random earlier steps (all steps
    would make the literal quadratic in the stream length)."""
    states, err = impl.run_manager(cfg, init, ops)
    big = max((len(s_) for s_ in states), default=0)
    if big > 5000:
        # far beyond anything the generators ask for (fill is bounded to a few hundred buckets): the
        # model could only confirm the blow-up after minutes of evaluation; report it as it is
        raise ValueError(f"the manager holds {big} candles for a stream of {len(init) + sum(len(o[1]) for o in ops if o[0] == 'append')}")
    code = None
    if err is not None:
        code = EXN_CODES.get(err, 99)
    keep = set(range(len(states)))
    if rng is not None and len(states) > checkpoints:
        keep = set(rng.sample(range(len(states) - 1), checkpoints - 1)) | {len(states) - 1}
    term = "(%s, %s, %s, %s, %s)" % (
        cfg_term(cfg), C.listlit(init, row_term), C.listlit(ops, op_term),
        C.listlit(list(enumerate(states)),
                  lambda ist: ("(Some %s)" % C.listlit(ist[1], exp_cd_term)) if ist[0] in keep else "None"),
        C.optlit(code, C.zlit))
    return term, states, err


CASE_TYPE = "mgr_case POW"
CHECKER = "check_mgr POW"
