"""C07 - work per appended candle is constant: it does not grow with history length."""
from __future__ import annotations

import sys
from typing import Dict, List

from .. import coqrun as C
from .. import core, engprop as E, hx
from .. import indicators as X

TOOL = 3
WATCH = ("/hexital/indicators/", "/hexital/analysis/", "/hexital/utils/", "/hexital/core/indicator.py")


class LineCounter:
    """Counts executed lines inside the indicator/analysis/utils code with sys.monitoring."""

    def __init__(self):
        self.count = 0
        self.by_file: Dict[str, int] = {}

    def __enter__(self):
        mon = sys.monitoring
        mon.use_tool_id(TOOL, "verif-c07")

        def on_line(code, line):
            fn = code.co_filename
            if any(w in fn for w in WATCH):
                self.count += 1
                return None
            return mon.DISABLE

        mon.register_callback(TOOL, mon.events.LINE, on_line)
        mon.set_events(TOOL, mon.events.LINE)
        return self

    def __exit__(self, *a):
        mon = sys.monitoring
        mon.set_events(TOOL, 0)
        mon.register_callback(TOOL, mon.events.LINE, None)
        mon.free_tool_id(TOOL)
        mon.restart_events()
        return False


def work_of_last_appends(build, rows: List[Dict], tail: int) -> List[int]:
    obj = build(rows[:-tail])
    out = []
    for r in rows[-tail:]:
        with LineCounter() as lc:
            obj.append(X.mk_rows([r]))
        out.append(lc.count)
    return out


def falsify(ctx, case: Dict) -> bool:
    specs, base, tail_rows, sizes, as_hexital = case["specs"], case["base"], case["tail"], case["sizes"], case["hexital"]
    bad = None
    try:
        with core.time_limit(120):
            def build(rows):
                if as_hexital:
                    h = hx.hexital(rows, [hx.member(s) for s in specs], case.get("hcfg", {}))
                    h.calculate()
                    return h
                ind = X.build(specs[0], X.mk_rows(rows), case.get("hcfg", {}))
                ind.calculate()
                return ind
            results = []
            for n in sizes:
                # the same trailing window of candles, preceded by histories of different length
                hist = base[len(base) - n:]
                results.append(work_of_last_appends(build, hist + tail_rows, len(tail_rows)))
            if any(r != results[0] for r in results[1:]):
                growth = [sum(r) for r in results]
                bad = {"relation": "work-depends-on-history-length",
                       "grows": growth[-1] > growth[0]}
                detail = dict(zip(sizes, growth))
    except Exception as e:  # noqa
        return False     # totality is C09's subject
    if bad:
        sig = {"kind": specs[0]["kind"] if not as_hexital else "Hexital", **bad}
        ctx.fail(sig, f"specs={specs} hexital={as_hexital} executed lines for the same {len(tail_rows)} appends by history length: {detail}",
                 {"case": case}, size=len(base))
        return True
    return False


def run(ctx: core.Ctx) -> int:
    proof = C.check_props("C07")
    ctx.proof_broken.extend(proof["broken"])
    rng = ctx.rng("cases")
    dist: Dict[str, int] = {}
    sizes = [150, 600] if not ctx.thorough else [150, 600, 2400]
    kinds = list(X.KINDS)
    n_cases = ctx.n(40, 200)
    for k in range(n_cases):
        kind = kinds[k % len(kinds)] if k < len(kinds) else rng.choice(kinds)
        as_hexital = k >= len(kinds) and rng.random() < 0.5
        specs = [X.gen_spec(rng, kind, inputs=("close",))]
        if as_hexital:
            for j in range(rng.randint(1, 3)):
                specs.append(X.gen_spec(rng, rng.choice(kinds), inputs=("close",)))
            for j, s in enumerate(specs):
                s["fullname"] = f"M{j}_{s['kind']}"
        for s in specs:
            if s["kind"] == "COUNTER":
                s["kw"]["input_value"] = "positive"
            if s["kind"] == "AMORPH" and s["analysis"].get("name") in ("a", "b"):
                s["analysis"]["name"] = "close"
            if s["kind"] == "AMORPH":
                for key in ("a", "b"):
                    if s["analysis"].get(key) in ("a", "b"):
                        s["analysis"][key] = "close" if key == "a" else "open"
        if not as_hexital and k % 5 == 4:
            # an indicator whose reading is legitimately None on every candle (its input never appears):
            # stored None readings count as computed and must not be recomputed on each append
            specs = [rng.choice([
                {"kind": "AMORPH", "analysis": {"f": rng.choice(["highest", "lowest", "value_range"]), "name": "nosuch", "length": 4}, "kw": {}, "round_value": 4},
                {"kind": "STDEV", "kw": {"period": 5, "input_value": "nosuch"}, "round_value": 4},
                {"kind": "SMA", "kw": {"period": 5, "input_value": "nosuch"}, "round_value": 4}])]
            kind = "always-None"
        base = X.gen_rows(rng, max(sizes), regime="walk", late=0)
        for r in base:
            r["inds"] = {}
        tail = X.gen_rows(rng, 4, regime="walk", late=0)
        t0 = base[-1]["ts"]
        for i, r in enumerate(tail):
            r["ts"] = t0 + 60 * (i + 1)
            r["inds"] = {}
        hcfg = rng.choice([{}, {}, {"lifespan": 60 * 120}]) if not as_hexital else {}
        c = {"specs": specs, "base": base, "tail": tail, "sizes": sizes, "hexital": as_hexital, "hcfg": hcfg}
        ctx.count("eval_falsifier")
        falsify(ctx, c)
        dist[kind] = dist.get(kind, 0) + 1
        ctx.seen({"specs": specs, "hexital": as_hexital, "hcfg": hcfg, "first": base[0]}, True)
        if len(ctx.samples) < 3:
            ctx.sample({"specs": specs, "hexital": as_hexital, "hcfg": hcfg, "history_lengths": sizes, "appends_measured": len(tail)})
    ctx.coverage.update({"input_distribution": dist, "history_lengths": sizes,
                         "measure": "executed lines (sys.monitoring LINE events) inside hexital/indicators, hexital/analysis, hexital/utils and hexital/core/indicator.py during each of 4 single-candle appends",
                         "nontrivial_rule": "every case compares the same trailing candles appended after histories of different lengths"})
    ctx.assumptions.append("CPU time is represented by executed-line counts in the indicator code; the candle manager's own "
                           "re-collapse walk is outside the measure, as the property's observation point lists indicator, analysis and utils code")
    return core.finish(ctx, proof)


def replay(ctx: core.Ctx, rep: Dict) -> int:
    failed = falsify(ctx, rep["replay"]["case"])
    print("REPRODUCED" if failed else "NOT-REPRODUCED")
    return 1 if failed else 0
