"""C07 - work per appended candle is constant: it does not grow with history length."""
from __future__ import annotations

import sys
from typing import Dict, List

from .. import coqrun as C
from .. import core, engprop as E, hx
from .. import indicators as X

# utils/timeframe.py serves the candle manager's collapse walk (bucket labels), which is outside the measure
MANAGER_SIDE = "/hexital/utils/timeframe.py"
WATCH = ("/hexital/indicators/", "/hexital/analysis/", "/hexital/utils/", "/hexital/core/indicator.py")


_SIG: Dict[str, frozenset] = {}


def signature_lines(fn: str) -> frozenset:
    """Lines of "def" headers (decorators, name, parameters) in a source file.  Whether the
    interpreter reports a line event for them on a call depends on how far the call site has
    been specialised - on how hot the code is, not on what the library does - so they are not work."""
    if fn not in _SIG:
        import ast
        lines = set()
        try:
            tree = ast.parse(open(fn).read())
            for node in ast.walk(tree):
                if isinstance(node, (ast.FunctionDef, ast.AsyncFunctionDef)):
                    first = min([node.lineno] + [d.lineno for d in node.decorator_list])
                    lines.update(range(first, node.body[0].lineno))
        except (OSError, SyntaxError):
            pass
        _SIG[fn] = frozenset(lines)
    return _SIG[fn]


class LineCounter:
    """Counts executed lines inside the indicator/analysis/utils code with the classic line
    tracer (sys.settrace): one event per line started in a frame, and one per backward jump.
    The interpreter sometimes reports a line a second time after a call made from it returns,
    depending on how far it has specialised the call site - on how hot the code is, not on what
    the library does - which made the count differ by a line or two between runs of the same
    work; such repeats (same frame, same line, later instruction) are not counted."""

    def __init__(self):
        self.count = 0

    def __enter__(self):
        last: Dict = {}

        def local(frame, event, arg):
            if event == "line":
                prev = last.get(frame)
                here = (frame.f_lineno, frame.f_lasti)
                last[frame] = here
                # the same line reported again further on in the same frame (after a call made from
                # it returned) is the artefact; the same line at an earlier or equal instruction
                # offset is a loop iteration and counts
                if prev is not None and prev[0] == here[0] and here[1] > prev[1]:
                    return local
                if frame.f_lineno not in signature_lines(frame.f_code.co_filename):
                    self.count += 1
            elif event == "return":
                last.pop(frame, None)
            return local

        def on_call(frame, event, arg):
            fn = frame.f_code.co_filename
            if any(w in fn for w in WATCH) and not fn.endswith(MANAGER_SIDE):
                return local
            return None

        self._old = sys.gettrace()
        sys.settrace(on_call)
        return self

    def __exit__(self, *a):
        sys.settrace(self._old)
        return False


def work_of_last_appends(build, rows: List[Dict], tail: int) -> List[int]:
    obj = build(rows[:-tail])
    out = []
    for r in rows[-tail:]:
        with LineCounter() as lc:
            obj.append(X.mk_rows([r]))
        out.append(lc.count)
    return out


def falsify(ctx, case: Dict) -> bool:
    specs, base, tail_rows, sizes, as_hexital = case["specs"], case["base"], case["tail"], case["sizes"], case["hexital"]
    bad = None
    try:
        with core.time_limit(120):
            def build(rows):
                if as_hexital:
                    h = hx.hexital(rows, [hx.member(s) for s in specs], case.get("hcfg", {}))
                    h.calculate()
                    return h
                ind = X.build(specs[0], X.mk_rows(rows), case.get("hcfg", {}))
                ind.calculate()
                return ind
            def measure(ns):
                out = []
                for n in ns:
                    # the same trailing window of candles, preceded by histories of different length
                    hist = base[len(base) - n:]
                    out.append(work_of_last_appends(build, hist + tail_rows, len(tail_rows)))
                return out
            results = measure(sizes)
            if any(r != results[0] for r in results[1:]):
                # Different counts can also come from the data: a recursive indicator started at
                # another point of the stream can sit in another state at the tail (Supertrend's
                # direction) and take another branch.  That changes the work by a bounded amount
                # once; work that depends on the history length keeps growing.  So the lengths are
                # measured again together with a still longer history, and the case fails when the
                # work strictly grows from each length to the next.
                longer = [n for n in (2 * max(sizes),) if n <= len(base)]
                ns = list(sizes) + longer
                results = measure(ns)
                growth = [sum(r) for r in results]
                if all(a < b for a, b in zip(growth, growth[1:])):
                    bad = {"relation": "work-grows-with-history-length"}
                    detail = {"total": dict(zip(ns, growth)), "per_append": results}
                else:
                    ctx.count("work_differs_without_growth")
    except Exception as e:  # noqa
        return False     # totality is C09's subject
    if bad:
        sig = {"kind": specs[0]["kind"] if not as_hexital else "Hexital", **bad}
        ctx.fail(sig, f"specs={specs} hexital={as_hexital} executed lines for the same {len(tail_rows)} appends by history length: {detail}",
                 {"case": case}, size=len(base))
        return True
    return False


def run(ctx: core.Ctx) -> int:
    proof = C.check_props("C07")
    ctx.proof_broken.extend(proof["broken"])
    rng = ctx.rng("cases")
    dist: Dict[str, int] = {}
    sizes = [150, 600] if not ctx.thorough else [150, 600, 2400]
    kinds = list(X.KINDS)
    n_cases = ctx.n(66, 240)
    for k in range(n_cases):
        reg = k - (k + 1) // 3          # regular cases before this one (every third case is an always-None one)
        kind = kinds[reg % len(kinds)] if reg < len(kinds) else rng.choice(kinds)
        as_hexital = reg >= len(kinds) and k % 3 != 2 and rng.random() < 0.5
        specs = [X.gen_spec(rng, kind, inputs=("close",))]
        if as_hexital:
            for j in range(rng.randint(1, 3)):
                specs.append(X.gen_spec(rng, rng.choice(kinds), inputs=("close",)))
            for j, s in enumerate(specs):
                s["fullname"] = f"M{j}_{s['kind']}"
        for s in specs:
            if s["kind"] == "COUNTER":
                s["kw"]["input_value"] = "positive"
            if s["kind"] == "AMORPH" and s["analysis"].get("name") in ("a", "b"):
                s["analysis"]["name"] = "close"
            if s["kind"] == "AMORPH":
                for key in ("a", "b"):
                    if s["analysis"].get(key) in ("a", "b"):
                        s["analysis"][key] = "close" if key == "a" else "open"
        if not as_hexital and k % 3 == 2:
            # an indicator whose reading is legitimately None on every candle (its input never appears):
            # stored None readings count as computed and must not be recomputed on each append, and a
            # window is counted in candles - a missing reading must not send a scan further back.
            # Every windowed movement function takes its turn (round robin, so each run covers all).
            templates = [{"kind": "AMORPH", "analysis": {"f": f_, "name": "nosuch", "length": 4}, "kw": {}, "round_value": 4}
                         for f_ in ("highest", "lowest", "value_range", "highestbar", "lowestbar", "rising", "falling",
                                    "mean_rising", "mean_falling")]
            templates += [{"kind": "AMORPH", "analysis": {"f": f_, "a": "nosuch", "b": b_, "length": 3}, "kw": {}, "round_value": 4}
                          for f_, b_ in (("cross", "nosuch"), ("crossover", "close"), ("crossunder", "nosuch"))]
            templates += [{"kind": "STDEV", "kw": {"period": 5, "input_value": "nosuch"}, "round_value": 4},
                          {"kind": "SMA", "kw": {"period": 5, "input_value": "nosuch"}, "round_value": 4}]
            # the candle patterns with a look-back: the window is `lookback` candles, whatever the history
            templates += [{"kind": "AMORPH", "analysis": {"f": f_, "lookback": 5}, "kw": {}, "round_value": 4}
                          for f_ in ("doji", "dojistar", "hammer", "inverted_hammer")]
            specs = [templates[(k // 3) % len(templates)]]
            kind = "always-None"
        base = X.gen_rows(rng, 2 * max(sizes), regime="walk", late=0)
        for r in base:
            r["inds"] = {}
        tail = X.gen_rows(rng, 4, regime="walk", late=0)
        t0 = base[-1]["ts"]
        for i, r in enumerate(tail):
            r["ts"] = t0 + 60 * (i + 1)
            r["inds"] = {}
        # manager settings: the work must not depend on history under any of them (a timeframe with or
        # without gap filling, converted candles, a lifespan)
        hcfg = rng.choice([{}, {}, {"lifespan": 60 * 120}, {"tf": "T1", "fill": True}, {"tf": "T5"},
                           {"tf": "T5", "fill": True}, {"ha": True}]) if not as_hexital else \
            rng.choice([{}, {}, {"tf": "T1", "fill": True}, {"tf": "T5", "fill": True}, {"ha": True}])
        c = {"specs": specs, "base": base, "tail": tail, "sizes": sizes, "hexital": as_hexital, "hcfg": hcfg}
        ctx.count("eval_falsifier")
        falsify(ctx, c)
        dist[kind] = dist.get(kind, 0) + 1
        ctx.seen({"specs": specs, "hexital": as_hexital, "hcfg": hcfg, "first": base[0]}, True)
        if len(ctx.samples) < 3:
            ctx.sample({"specs": specs, "hexital": as_hexital, "hcfg": hcfg, "history_lengths": sizes, "appends_measured": len(tail)})
    ctx.coverage.update({"input_distribution": dist, "history_lengths": sizes,
                         "measure": "executed lines (sys.settrace line events, def headers excluded) inside hexital/indicators, hexital/analysis, hexital/utils and hexital/core/indicator.py during each of 4 single-candle appends",
                         "nontrivial_rule": "every case compares the same trailing candles appended after histories of different lengths"})
    ctx.assumptions.append("CPU time is represented by executed-line counts in the indicator code; the candle manager's own "
                           "re-collapse walk (candle_manager.py and its bucket-label helper utils/timeframe.py) is outside the measure, as the property's observation point lists indicator, analysis and utils code")
    return core.finish(ctx, proof)


def replay(ctx: core.Ctx, rep: Dict) -> int:
    failed = falsify(ctx, rep["replay"]["case"])
    print("REPRODUCED" if failed else "NOT-REPRODUCED")
    return 1 if failed else 0
