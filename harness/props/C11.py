"""C11 - Heikin-Ashi conversion follows its recurrence under every append schedule."""
from __future__ import annotations

from typing import Dict, List

from .. import core, impl, mgrcorr, mgrprop
from .C03 import expected


def ha_reference(raw: List[tuple]) -> List[tuple]:
    """Independent recurrence over (o, h, l, c) tuples of the raw (collapsed) candles."""
    out = []
    for i, (o, h, l, c) in enumerate(raw):
        hc = (o + h + l + c) / 4
        ho = (o + c) / 2 if i == 0 else (out[-1][0] + out[-1][3]) / 2
        out.append((ho, max(ho, h, hc), min(ho, l, hc), hc))
    return out


def cfg_fn(rng, rows, meta):
    r = rng.random()
    if r < 0.45 or not rows:
        return {"tf": None, "ha": True}
    tf, tfs = mgrprop.bounded_tf(rng, rows, meta)
    return {"tf": tf, "ha": True, "fill": rng.random() < 0.25}


def falsify(ctx, cfg, rows, init, ops, meta) -> bool:
    states, err = impl.run_manager(cfg, init, ops)
    bad = None
    if err is not None:
        bad = {"relation": "exception", "exc": err}
    else:
        last = states[-1]
        tfs = mgrcorr.tf_seconds(cfg.get("tf"))
        # the raw candles the conversion must have been applied to
        if tfs is None:
            raw = [(r["ts"], r["open"], r["high"], r["low"], r["close"], r["volume"]) for r in rows]
        elif not cfg.get("fill"):
            raw = expected(rows, tfs)
        else:
            raw = None   # with fill the raw series is the no-HA twin fed the same schedule
            tw, terr = impl.run_manager({**cfg, "ha": False}, init, ops)
            if terr is None:
                raw = [(s["ts"],) + tuple(s["ohlcv"]) for s in tw[-1]]
        if raw is not None:
            if [s["ts"] for s in last] != [r[0] for r in raw]:
                bad = {"relation": "candle-set-differs-from-raw"}
            else:
                ref = ha_reference([r[1:5] for r in raw])
                for i, (s, rf, rw) in enumerate(zip(last, ref, raw)):
                    if not s["tag"]:
                        bad = {"relation": "candle-not-converted", "start": "empty-or-single" if len(init) <= 1 else "loaded"}
                        break
                    if tuple(s["ohlcv"][:4]) != rf:
                        bad = {"relation": "recurrence", "start": "empty-or-single" if len(init) <= 1 else "loaded"}
                        break
                    if s["clean"] is None or tuple(s["clean"]) != tuple(rw[1:6]):
                        bad = {"relation": "raw-values-not-recoverable"}
                        break
    if bad:
        sig = {"kind": "heikin-ashi", **bad, "fill": bool(cfg.get("fill"))}
        ctx.fail(sig, f"Heikin-Ashi: {bad} tf={cfg.get('tf')} fill={cfg.get('fill')} n={len(rows)} init={len(init)}",
                 {"cfg": cfg, "init": init, "ops": ops}, size=len(rows))
        return True
    return False


def run(ctx: core.Ctx) -> int:
    return mgrprop.run_property(
        ctx, "C11", cfg_fn, falsify, 220, 2500,
        nontrivial=lambda cfg, rows, states: bool(states) and len(states[-1]) >= 3,
        nontrivial_rule="at least three converted candles in the final state", collapse_ops=True)


def replay(ctx: core.Ctx, rep: Dict) -> int:
    r = rep["replay"]
    ops = [tuple(o) for o in r["ops"]]
    rows = r["init"] + [x for o in ops if o[0] == "append" for x in o[1]]
    failed = falsify(ctx, r["cfg"], rows, r["init"], ops, {})
    print("REPRODUCED" if failed else "NOT-REPRODUCED")
    return 1 if failed else 0
