"""C11 - Heikin-Ashi conversion follows its recurrence under every append schedule."""
from __future__ import annotations

from typing import Dict, List

from .. import core, gen, hx, impl, mgrcorr, mgrprop
from .. import indicators as X
from .C03 import expected


def ha_reference(raw: List[tuple]) -> List[tuple]:
    """Independent recurrence over (o, h, l, c) tuples of the raw (collapsed) candles."""
    out = []
    for i, (o, h, l, c) in enumerate(raw):
        hc = (o + h + l + c) / 4
        ho = (o + c) / 2 if i == 0 else (out[-1][0] + out[-1][3]) / 2
        out.append((ho, max(ho, h, hc), min(ho, l, hc), hc))
    return out


def cfg_fn(rng, rows, meta):
    r = rng.random()
    if r < 0.45 or not rows:
        return {"tf": None, "ha": True}
    tf, tfs = mgrprop.bounded_tf(rng, rows, meta)
    return {"tf": tf, "ha": True, "fill": rng.random() < 0.25}


def falsify(ctx, cfg, rows, init, ops, meta) -> bool:
    states, err = impl.run_manager(cfg, init, ops)
    bad = None
    if err is not None:
        bad = {"relation": "exception", "exc": err}
    else:
        last = states[-1]
        tfs = mgrcorr.tf_seconds(cfg.get("tf"))
        # the raw candles the conversion must have been applied to
        if tfs is None:
            raw = [(r["ts"], r["open"], r["high"], r["low"], r["close"], r["volume"]) for r in rows]
        elif not cfg.get("fill"):
            raw = expected(rows, tfs)
        else:
            raw = None   # with fill the raw series is the no-HA twin fed the same schedule
            tw, terr = impl.run_manager({**cfg, "ha": False}, init, ops)
            if terr is None:
                raw = [(s["ts"],) + tuple(s["ohlcv"]) for s in tw[-1]]
        if raw is not None:
            if [s["ts"] for s in last] != [r[0] for r in raw]:
                bad = {"relation": "candle-set-differs-from-raw"}
            else:
                ref = ha_reference([r[1:5] for r in raw])
                for i, (s, rf, rw) in enumerate(zip(last, ref, raw)):
                    if not s["tag"]:
                        bad = {"relation": "candle-not-converted", "start": "empty-or-single" if len(init) <= 1 else "loaded"}
                        break
                    if tuple(s["ohlcv"][:4]) != rf:
                        bad = {"relation": "recurrence", "start": "empty-or-single" if len(init) <= 1 else "loaded"}
                        break
                    if s["clean"] is None or tuple(s["clean"]) != tuple(rw[1:6]):
                        bad = {"relation": "raw-values-not-recoverable"}
                        break
    if bad is None and not cfg.get("fill") and len(rows) >= 3 and len(rows) % 2 == 0:
        ctx.count("hexital_level_cases")
        bad = hexital_level(cfg, rows, init, ops, meta)
    if bad:
        sig = {"kind": "heikin-ashi", **bad, "fill": bool(cfg.get("fill"))}
        ctx.fail(sig, f"Heikin-Ashi: {bad} tf={cfg.get('tf')} fill={cfg.get('fill')} n={len(rows)} init={len(init)}",
                 {"cfg": cfg, "init": init, "ops": ops}, size=len(rows))
        return True
    return False


def hexital_level(cfg, rows, init, ops, meta):
    """The same stream and schedule through a Heikin-Ashi Hexital whose members live on two
    managers (the raw stream and a collapsing timeframe): every manager must hold the recurrence
    over its own raw (collapsed) candles, with the raw values recoverable.  Also two standalone
    indicators that were handed one and the same HeikinAshi object."""
    from hexital.candlesticks.heikinashi import HeikinAshi
    tf = cfg.get("tf")
    if tf is None:
        step = max(1, (rows[-1]["ts"] - rows[0]["ts"]) // max(1, len(rows) - 1))
        tfs = max(2, 3 * step)
        tf = f"S{tfs}" if tfs < 86400 * 7 else None
        if tf is None:
            return None
    tfs = mgrcorr.tf_seconds(tf)
    spec = {"kind": "SMA", "kw": {"period": 3, "input_value": "close"}, "round_value": 4}

    def judge(cs, raw, where):
        if [gen.to_ts(c.timestamp) for c in cs] != [r[0] for r in raw]:
            return {"relation": "candle-set-differs-from-raw", "where": where}
        ref = ha_reference([r[1:5] for r in raw])
        for c, rf, rw in zip(cs, ref, raw):
            if not c.tag:
                return {"relation": "candle-not-converted", "where": where}
            if (c.open, c.high, c.low, c.close) != rf:
                return {"relation": "recurrence", "where": where}
            cv = c.clean_values
            if not cv or tuple(cv.get(k) for k in ("open", "high", "low", "close", "volume")) != tuple(rw[1:6]):
                return {"relation": "raw-values-not-recoverable", "where": where}
        return None

    raw0 = [(r["ts"], r["open"], r["high"], r["low"], r["close"], r["volume"]) for r in rows]
    raw1 = expected(rows, tfs)
    try:
        with core.time_limit(30):
            h = hx.hexital([{**r, "inds": {}} for r in init], [hx.member(spec), hx.member(spec, tf)], {"ha": True})
            shared = HeikinAshi()
            a = X.build(spec, X.mk_rows([{**r, "inds": {}} for r in init]), {"ha_obj": shared})
            b = X.build(spec, X.mk_rows([{**r, "inds": {}} for r in init]), {"tf": tf, "ha_obj": shared})
            for op in ops:
                if op[0] == "append":
                    h.append(X.mk_rows([{**r, "inds": {}} for r in op[1]]))
                    a.append(X.mk_rows([{**r, "inds": {}} for r in op[1]]))
                    b.append(X.mk_rows([{**r, "inds": {}} for r in op[1]]))
            got = h.get_candles()
            other = [v for k, v in got.items() if k != "default"]
            return (judge(got["default"], raw0, "hexital-default") or
                    (judge(other[0], raw1, "hexital-member-timeframe") if other else None) or
                    judge(a.candles, raw0, "shared-type-object-raw") or
                    judge(b.candles, raw1, "shared-type-object-timeframe"))
    except Exception as e:  # noqa
        return {"relation": "hexital-exception", "exc": type(e).__name__}


def run(ctx: core.Ctx) -> int:
    return mgrprop.run_property(
        ctx, "C11", cfg_fn, falsify, 220, 2500,
        nontrivial=lambda cfg, rows, states: bool(states) and len(states[-1]) >= 3,
        nontrivial_rule="at least three converted candles in the final state", collapse_ops=True)


def replay(ctx: core.Ctx, rep: Dict) -> int:
    r = rep["replay"]
    ops = [tuple(o) for o in r["ops"]]
    rows = r["init"] + [x for o in ops if o[0] == "append" for x in o[1]]
    failed = falsify(ctx, r["cfg"], rows, r["init"], ops, {})
    print("REPRODUCED" if failed else "NOT-REPRODUCED")
    return 1 if failed else 0
