"""C13 - indicators sharing candles do not interfere with one another."""
from __future__ import annotations

import copy
from typing import Dict, List

from .. import coqrun as C
from .. import core, engprop as E, hx, hxcorr
from .. import indicators as X


def targeted_pair(rng):
    """Pairs whose names or helper names are close to one another."""
    p = rng.randint(2, 9)
    t = rng.choice(["substring", "atr-tr", "tr-atr", "bbands-sma", "bbands-stdev", "supertrend-tr", "kc-atr",
                    "name-prefix", "name-prefix", "sibling", "sibling", "sibling"])
    mk = lambda kind, **kw: {"kind": kind, "kw": kw, "round_value": 4}
    if t == "name-prefix":
        # B's name is A's name plus "_<suffix>": B's helper series start with A's name too
        k = rng.choice(["RSI", "STDEV", "SUPERTREND", "ADX", "STOCH", "TSI", "MACD", "BBANDS", "KC", "HMA", "ATR", "VWAP", "EMA"])
        a = X.gen_spec(rng, k, inputs=("close",))
        b = {"kind": k, "kw": dict(a["kw"]), "round_value": 4, "name_suffix": rng.choice(["hi", "b", "x2"])}
        if k in X.HAS_INPUT:
            b["kw"]["input_value"] = rng.choice(["high", "close"])
        a["round_value"] = 4
        return (a, b, t) if rng.random() < 0.7 else (b, a, t)
    if t == "sibling":
        # two indicators of one class that agree in all parameters but one: a helper series named
        # after only some of the parameters would be shared between them
        k = rng.choice(["MACD", "MACD", "STOCH", "TSI", "ADX", "KC", "SUPERTREND", "BBANDS", "STDEVTHRES", "HMA", "RSI",
                        "VWAP", "VWAP", "ATR", "STDEV"])
        a = X.gen_spec(rng, k, inputs=("close",))
        if k == "VWAP":       # its period only shows in the name
            a["kw"]["period"] = rng.choice([5, 10])
        a["round_value"] = 4
        b = {"kind": k, "kw": dict(a["kw"]), "round_value": 4}
        nums = [key for key, v in b["kw"].items() if isinstance(v, int) and not isinstance(v, bool)]
        key = rng.choice(nums + (["input_value"] if "input_value" in b["kw"] else []))
        if key == "input_value":
            b["kw"][key] = "high"
        else:
            b["kw"][key] = b["kw"][key] + rng.choice([1, 2, 5])
        return (a, b, t) if rng.random() < 0.5 else (b, a, t)
    if t == "substring":
        k = rng.choice(["EMA", "SMA", "WMA", "RMA"])
        return mk(k, period=p, input_value="close"), mk(k, period=p * 10 + rng.randint(0, 9), input_value="close"), t
    if t == "atr-tr":
        return mk("ATR", period=p), mk("TR"), t
    if t == "tr-atr":
        return mk("TR"), mk("ATR", period=p), t
    if t == "bbands-sma":
        return mk("BBANDS", period=p, input_value="close"), mk("SMA", period=p, input_value=rng.choice(["high", "low", "close"])), t
    if t == "bbands-stdev":
        return mk("BBANDS", period=p, input_value="close"), mk("STDEV", period=p, input_value=rng.choice(["high", "close"])), t
    if t == "supertrend-tr":
        return mk("SUPERTREND", period=p, multiplier=3.0), mk("TR"), t
    return mk("KC", period=p, multiplier=2.0, input_value="close"), mk("ATR", period=p), t


def falsify(ctx, case: Dict) -> bool:
    a_spec, b_spec, rows, split, ops = case["a"], case["b"], case["rows"], case["split"], case["ops"]
    bad = None
    try:
        with core.time_limit(40):
            def fresh(specs):
                ms = [hx.member(s, case.get("tf")) for s in specs]
                h = hx.hexital(rows[:split], ms)
                h.calculate()
                for r in rows[split:]:
                    h.append(X.mk_rows([r]))
                return h, ms
            h_b, (mb,) = fresh([b_spec])
            alone = copy.deepcopy(mb.as_list())
            h_ab, (ma, mb2) = fresh([a_spec, b_spec])
            if ma.name == mb2.name:
                return False      # not distinct names: outside the property
            h_ba, (mb3, ma3) = fresh([b_spec, a_spec])
            if not E.same_value_list(mb2.as_list(), alone):
                bad = {"relation": "presence-of-other-changes-readings", "order": "other-first"}
            elif not E.same_value_list(mb3.as_list(), alone):
                bad = {"relation": "presence-of-other-changes-readings", "order": "other-second"}
            else:
                for op in ops:
                    if op == "purge":
                        h_ab.purge(ma.name)
                    elif op == "recalculate":
                        h_ab.recalculate(ma.name)
                    elif op == "remove":
                        h_ab.remove_indicator(ma.name)
                    elif op == "calculate":
                        h_ab.calculate()
                    if not E.same_value_list(h_ab.indicator(mb2.name).as_list(), alone):
                        bad = {"relation": "operation-on-other-changes-readings", "op": op}
                        break
            if bad is None and case.get("mid") is not None:
                # the same operations applied in the middle of the stream, candles keep arriving after them
                for order in ((a_spec, b_spec), (b_spec, a_spec)):
                    ms = [hx.member(s_, case.get("tf")) for s_ in order]
                    mb_ = ms[order.index(b_spec)]
                    ma_ = ms[order.index(a_spec)]
                    h = hx.hexital(rows[:split], ms)
                    h.calculate()
                    for j, r in enumerate(rows[split:]):
                        if j == case["mid"]:
                            for op in ops:
                                if op == "purge":
                                    h.purge(ma_.name)
                                elif op == "recalculate":
                                    h.recalculate(ma_.name)
                                elif op == "remove":
                                    h.remove_indicator(ma_.name)
                                elif op == "calculate":
                                    h.calculate()
                        h.append(X.mk_rows([r]))
                    if not E.same_value_list(h.indicator(mb_.name).as_list(), alone):
                        bad = {"relation": "operation-on-other-changes-later-readings", "ops": "+".join(sorted(set(ops)))}
                        break
    except Exception as e:  # noqa
        bad = {"relation": "raises", "exc": type(e).__name__}
    if bad:
        sig = {"a": a_spec["kind"], "b": b_spec["kind"], **bad}
        if case.get("target"):
            sig["pair"] = case["target"]
        ctx.fail(sig, f"A={a_spec} B={b_spec} n={len(rows)} ops={ops}: {bad}", {"case": case}, size=len(rows))
        return True
    return False


def run(ctx: core.Ctx) -> int:
    proof = C.check_props("C13")
    ctx.proof_broken.extend(proof["broken"])
    rng = ctx.rng("cases")
    dist: Dict[str, int] = {}
    cases = [c["case"] for c in E.load_corpus("C13")]
    kinds = [k for k in X.KINDS if k not in ("AMORPH", "COUNTER")]
    for _ in range(ctx.n(220, 2500)):
        # both members on one collapsing timeframe of the Hexital (they share that manager's candles)
        tf = rng.choice(["T2", "T5", "T5", "T10"]) if rng.random() < 0.3 else None
        n = rng.randint(6, 60 if not ctx.thorough else 150) if tf is None else rng.randint(20, 160)
        rows = X.gen_rows(rng, n, late=0)
        if rng.random() < 0.5:
            a, b, target = targeted_pair(rng)
        else:
            a = X.gen_spec(rng, rng.choice(kinds), inputs=("close", "high"))
            b = X.gen_spec(rng, rng.choice(kinds), inputs=("close", "low"))
            a["round_value"] = b["round_value"] = 4
            target = None
        ops = [rng.choice(["purge", "recalculate", "remove", "calculate"]) for _ in range(rng.randint(1, 4))]
        # after a remove the other operations on A are no-ops by name; keep remove last
        if "remove" in ops:
            ops = [o for o in ops if o != "remove"] + ["remove"]
        split = rng.choice([0, 1, n // 2, n])
        if tf and rng.random() < 0.5:
            # the members' own timeframe_fill flags differ (the Hexital's flag is what counts); gaps in the stream
            rows = X.gen_rows(rng, n, late=0, ts_mode=rng.choice(["gaps", "biggaps"]))
            a = dict(a, own_fill=rng.random() < 0.5)
            b = dict(b, own_fill=not a["own_fill"])
        cases.append({"a": a, "b": b, "rows": rows, "split": split, "ops": ops, "target": target, "tf": tf,
                      "mid": rng.randrange(0, n - split) if n - split > 0 and rng.random() < 0.7 else None})
    hc = hxcorr.HxCorr(ctx, "C13")
    for c in cases:
        ctx.count("eval_falsifier")
        falsify(ctx, c)
        # the same history on the Hexital model: both members, the operations aimed at the first
        prog = [("calculate", None)]
        rest = c["rows"][c["split"]:]
        mid = c.get("mid") if c.get("mid") is not None else len(rest)
        prog += [("append", [r]) for r in rest[:mid]]
        prog += [(op, 0) for op in c["ops"]]
        prog += [("append", [r]) for r in rest[mid:]]
        hc.add([c["a"], c["b"]], [c.get("tf"), c.get("tf")], {}, c["rows"][:c["split"]], prog, rng)
        key = c.get("target") or "random-pair"
        dist[key] = dist.get(key, 0) + 1
        if c.get("tf"):
            dist["shared-timeframe"] = dist.get("shared-timeframe", 0) + 1
        ctx.seen({"a": c["a"], "b": c["b"], "rows": c["rows"], "ops": c["ops"]}, len(c["rows"]) >= 6)
        if len(ctx.samples) < 3:
            ctx.sample({"a": c["a"], "b": c["b"], "n": len(c["rows"]), "ops": c["ops"], "target": c.get("target")})
    hc.run()
    ctx.coverage.update({"input_distribution": dist,
                         "nontrivial_rule": "two indicators with distinct names on >= 6 shared candles and at least one operation aimed at one of them"})
    return core.finish(ctx, proof)


def replay(ctx: core.Ctx, rep: Dict) -> int:
    failed = falsify(ctx, rep["replay"]["case"])
    print("REPRODUCED" if failed else "NOT-REPRODUCED")
    return 1 if failed else 0
