"""C06 - momentum, oscillator and volume indicators match their definitions."""
from .. import refprop
from ..indicators import C06_KINDS


def run(ctx):
    return refprop.run(ctx, "C06", C06_KINDS, 300, 3500)


replay = refprop.replay
