"""C19 - reading state and converting input have no hidden side effects."""
from __future__ import annotations

import copy
from datetime import datetime
from typing import Any, Dict, List

from .. import coqrun as C
from .. import core, engprop as E, gen, hx, hxcorr
from .. import indicators as X

from hexital import Candle, Hexital  # noqa: E402

ACCESSORS = ["str", "repr", "name", "settings", "has_reading", "reading", "prev_reading", "as_list",
             "reading_count", "reading_period", "candles_sum", "read_candle"]
HX_ACCESSORS = ["candles", "get_candles", "timeframes", "indicators", "indicator_settings", "has_reading", "reading",
                "prev_reading", "reading_as_list"]


def freeze(x, depth=0):
    """Deep, comparable image of an object's state (types included)."""
    if depth > 8:
        return "<deep>"
    if isinstance(x, (int, float, bool, str, type(None), datetime)):
        return (type(x).__name__, x)
    if isinstance(x, dict):
        return ("dict", tuple((k, freeze(v, depth + 1)) for k, v in x.items()))
    if isinstance(x, (list, tuple)):
        return (type(x).__name__, tuple(freeze(v, depth + 1) for v in x))
    if isinstance(x, set):
        return ("set", tuple(sorted(map(str, x))))
    if isinstance(x, Candle):
        return ("Candle", freeze({k: v for k, v in vars(x).items()}, depth + 1))
    if callable(x):
        return ("callable", getattr(x, "__name__", "?"))
    if hasattr(x, "__dict__"):
        return (type(x).__name__, freeze({k: v for k, v in vars(x).items()}, depth + 1))
    return (type(x).__name__, repr(x))


def call_accessor(ind, a: str, rng_index: int):
    n = len(ind.candles)
    i = rng_index % n if n else 0
    if a == "str":
        return str(ind)
    if a == "repr":
        return repr(ind)
    if a == "name":
        return ind.name
    if a == "settings":
        return ind.settings
    if a == "has_reading":
        return ind.has_reading
    if a == "reading":
        return ind.reading(index=i) if n else None
    if a == "prev_reading":
        return ind.prev_reading()
    if a == "as_list":
        return ind.as_list()
    if a == "reading_count":
        return ind.reading_count()
    if a == "reading_period":
        return ind.reading_period(3, index=i)
    if a == "candles_sum":
        return ind.candles_sum(3, "close", index=i) if n else None
    if a == "read_candle":
        return ind.read_candle(ind.candles[i]) if n else None


def call_hx_accessor(h, a: str, name: str):
    if a == "candles":
        return h.candles()
    if a == "get_candles":
        return h.get_candles()
    if a == "timeframes":
        return h.timeframes
    if a == "indicators":
        return h.indicators
    if a == "indicator_settings":
        return h.indicator_settings
    if a == "has_reading":
        return h.has_reading(name)
    if a == "reading":
        return h.reading(name)
    if a == "prev_reading":
        return h.prev_reading(name)
    if a == "reading_as_list":
        return h.reading_as_list(name)


def falsify_reads(ctx, case: Dict) -> bool:
    spec, rows, seq = case["spec"], case["rows"], case["seq"]
    bad = None
    try:
        with core.time_limit(40):
            ind = X.build(spec, X.mk_rows(rows[:case["split"]]), case.get("cfg", {}))
            ind.calculate()
            twin = X.build(spec, X.mk_rows(rows[:case["split"]]), case.get("cfg", {}))
            twin.calculate()
            rest = list(rows[case["split"]:])
            for a, idx in seq:
                if a == "append":
                    if rest:
                        r = rest.pop(0)
                        ind.append(X.mk_rows([r]))
                        twin.append(X.mk_rows([r]))
                    continue
                before = freeze(ind)
                call_accessor(ind, a, idx)
                if freeze(ind) != before:
                    bad = {"relation": "read-only-call-changes-state", "accessor": a}
                    break
            if bad is None:
                # still fully usable, and equal to a twin that was never read
                for r in rest:
                    ind.append(X.mk_rows([r]))
                    twin.append(X.mk_rows([r]))
                if E.same_snapshot(E.snapshot(ind), E.snapshot(twin)) is not None:
                    bad = {"relation": "object-diverges-after-reads"}
    except Exception as e:  # noqa
        bad = {"relation": "object-unusable-after-reads", "exc": type(e).__name__}
    if bad:
        ctx.fail({"mode": "reads", **bad}, f"{spec} n={len(rows)} seq={[s[0] for s in seq]}: {bad}",
                 {"mode": "reads", "case": case}, size=len(rows))
        return True
    return False


def falsify_hx_reads(ctx, case: Dict) -> bool:
    specs, rows, tfs = case["specs"], case["rows"], case["tfs"]
    bad = None
    try:
        with core.time_limit(40):
            ms = [hx.member(s, tf) for s, tf in zip(specs, tfs)]
            if len({m.name for m in ms}) != len(ms):
                return False
            h = hx.hexital(rows, ms)
            h.calculate()
            for a in HX_ACCESSORS:
                before = freeze(h)
                call_hx_accessor(h, a, ms[0].name)
                if freeze(h) != before:
                    bad = {"relation": "read-only-call-changes-state", "accessor": "Hexital." + a}
                    break
    except Exception as e:  # noqa
        bad = {"relation": "raises", "exc": type(e).__name__}
    if bad:
        ctx.fail({"mode": "hx-reads", **bad}, f"specs={specs} n={len(rows)}: {bad}", {"mode": "hx-reads", "case": case}, size=len(rows))
        return True
    return False


def encode(row: Dict, form: str):
    ts = gen.to_dt(row["ts"])
    if form == "candle":
        return Candle(row["open"], row["high"], row["low"], row["close"], row["volume"], timestamp=ts)
    if form == "dict":
        return {"open": row["open"], "high": row["high"], "low": row["low"], "close": row["close"],
                "volume": row["volume"], "timestamp": ts}
    if form == "dict_iso":       # the timestamp as an ISO string
        return {"open": row["open"], "high": row["high"], "low": row["low"], "close": row["close"],
                "volume": row["volume"], "timestamp": ts.isoformat()}
    if form == "candle_iso":
        return Candle(row["open"], row["high"], row["low"], row["close"], row["volume"], timestamp=ts.isoformat())
    if form == "dict_caps":      # the capitalised spelling the library also accepts (pandas / yfinance exports)
        return {"Open": row["open"], "High": row["high"], "Low": row["low"], "Close": row["close"],
                "Volume": row["volume"], "Timestamp": ts}
    if form == "dict_extra":     # further keys the caller keeps on its rows are none of the library's business
        return {"open": row["open"], "high": row["high"], "low": row["low"], "close": row["close"],
                "volume": row["volume"], "timestamp": ts, "symbol": "XYZ", "Adj Close": row["close"]}
    if form == "list_ts_last":
        return [row["open"], row["high"], row["low"], row["close"], row["volume"], ts]
    if form == "list_ts_first":
        return [ts, row["open"], row["high"], row["low"], row["close"], row["volume"]]
    raise ValueError(form)


def falsify_encodings(ctx, case: Dict) -> bool:
    """The same candle data as Candle / dict / list (single or in a list) gives identical
    results, leaves the caller's containers alone, and reaches every timeframe."""
    spec, rows, form, batch, tf = case["spec"], case["rows"], case["form"], case["batch"], case["tf"]
    bad = None
    try:
        with core.time_limit(40):
            def run(frm):
                ms = [hx.member(spec), hx.member({**spec, "name_suffix": "tf"}, tf)]
                h = hx.hexital([], ms)
                containers = []
                if batch:
                    payload = [encode(r, frm) for r in rows]
                    keep = copy.deepcopy(payload) if not frm.startswith("candle") else None
                    h.append(payload)
                    containers.append((payload, keep))
                else:
                    for r in rows:
                        payload = encode(r, frm)
                        keep = copy.deepcopy(payload) if not frm.startswith("candle") else None
                        h.append(payload)
                        containers.append((payload, keep))
                return h, containers
            ref, _ = run("candle")
            got, containers = run(form)
            d = hx.same_hx(hx.hx_snapshot(ref), hx.hx_snapshot(got))
            if d is not None:
                bad = {"relation": "encoding-changes-result", "form": form, "where": "default" if d[0] == "default" else "other-timeframe"}
            else:
                for payload, keep in containers:
                    if keep is not None and payload != keep:
                        bad = {"relation": "caller-container-mutated", "form": form}
                        break
    except Exception as e:  # noqa
        bad = {"relation": "raises", "exc": type(e).__name__, "form": form}
    if bad:
        ctx.fail({"mode": "encodings", **bad, "batch": batch}, f"{spec} form={form} batch={batch} tf={tf} n={len(rows)}: {bad}",
                 {"mode": "encodings", "case": case}, size=len(rows))
        return True
    return False


def falsify_arguments(ctx, case: Dict) -> bool:
    """Dictionaries the caller hands over as arguments (an Amorph's `args`, a dict-form member) are read,
    not kept or altered: they are unchanged afterwards, and changing them later does not change an
    indicator that was built from them."""
    from hexital import indicators as I_
    from hexital.analysis import movement
    rows, length, other = case["rows"], case["length"], case["other"]
    bad = None
    try:
        with core.time_limit(40):
            fn = getattr(movement, case["f"])
            args = {"indicator": "close", "length": length}
            keep = copy.deepcopy(args)
            if case["via"] == "amorph":
                a = I_.Amorph(analysis=fn, args=args, round_value=4, name_suffix="x")
                h = hx.hexital([], [a])
            else:
                member = {"analysis": case["f"], "args": args, "name_suffix": "x"}
                keep_member = copy.deepcopy(member)
                h = Hexital("hx", [], [member])
            if args != keep or (case["via"] != "amorph" and member != keep_member):
                bad = {"relation": "caller-arguments-mutated", "via": case["via"]}
            else:
                args["length"] = other          # the caller reuses its dictionary for something else
                args["indicator"] = "open"
                h.append(X.mk_rows(rows))
                ref = I_.Amorph(analysis=fn, args={"indicator": "close", "length": length}, round_value=4, name_suffix="x",
                                candles=X.mk_rows(rows))
                ref.calculate()
                got = list(h.indicators.values())[0].as_list()
                if not E.same_value_list(got, ref.as_list()):
                    bad = {"relation": "indicator-aliases-caller-arguments", "via": case["via"]}
    except Exception as e:  # noqa
        bad = {"relation": "raises", "exc": type(e).__name__, "via": case["via"]}
    if bad:
        ctx.fail({"mode": "arguments", **bad}, f"{case['f']} length={length}->{other} via={case['via']} n={len(rows)}: {bad}",
                 {"mode": "arguments", "case": case}, size=len(rows))
        return True
    return False


def gen_delivery_case(rng) -> Dict:
    """A Hexital whose members come and go while candles keep arriving: remove_indicator leaves
    the timeframe's manager in place, and every manager must keep receiving every candle."""
    tfs_pool = ["T5", "T10", "T15", "H1"]
    specs, tfs = [], []
    for j in range(rng.randint(2, 3)):
        s = X.gen_spec(rng, rng.choice(["SMA", "EMA", "OBV", "TR", "RMA", "HL"]), inputs=("close",))
        s["name_suffix"] = f"d{j}"
        specs.append(s)
        tfs.append(None if j == 0 and rng.random() < 0.5 else rng.choice(tfs_pool))
    rows = X.gen_rows(rng, rng.randint(6, 40), late=0, step=rng.choice([60, 300]))
    for r in rows:
        r["inds"] = {}
    init = rng.randint(0, min(5, len(rows)))
    ops, i, live = [], init, set(range(len(specs)))
    while i < len(rows):
        u = rng.random()
        if u < 0.3 and live:
            j = rng.choice(sorted(live))
            live.discard(j)
            ops.append(("remove", j))
        elif u < 0.5 and len(live) < len(specs):
            j = rng.choice(sorted(set(range(len(specs))) - live))
            live.add(j)
            ops.append(("add", j))
        else:
            k = rng.randint(1, 6)
            ops.append(("append", rows[i:i + k]))
            i += k
    for j in sorted(set(range(len(specs))) - live):
        ops.append(("add", j))
    return {"specs": specs, "tfs": tfs, "rows": rows, "init": init, "ops": ops}


def falsify_delivery(ctx, case: Dict) -> bool:
    """append delivers the same candle to every timeframe of a Hexital - including a timeframe
    whose indicators have all been removed: each manager always equals a standalone
    CandleManager of that timeframe fed the whole stream so far."""
    from .. import impl
    specs, tfs, rows = case["specs"], case["tfs"], case["rows"]
    bad = None
    try:
        with core.time_limit(60):
            ms = [hx.member(s, tf) for s, tf in zip(specs, tfs)]
            if len({m.name for m in ms}) != len(ms):
                return False
            h = hx.hexital(rows[:case["init"]], ms)
            fed = list(rows[:case["init"]])
            for step, op in enumerate(case["ops"]):
                if op[0] == "append":
                    h.append(X.mk_rows(op[1]))
                    fed += op[1]
                elif op[0] == "remove":
                    h.remove_indicator(ms[op[1]].name)
                else:
                    h.add_indicator(hx.member(specs[op[1]], tfs[op[1]]))
                for name, cs in h.get_candles().items():
                    ref = impl.manager({"tf": None if name == "default" else name}, fed).candles
                    got = [(gen.to_ts(c.timestamp), impl.snap_ohlcv(c)) for c in cs]
                    exp = [(gen.to_ts(c.timestamp), impl.snap_ohlcv(c)) for c in ref]
                    if got != exp:
                        bad = {"relation": "timeframe-missed-candles", "after": op[0],
                               "orphan": not any(getattr(m, "timeframe", None) == name for m in h.indicators.values())
                               if name != "default" else False}
                        break
                if bad:
                    break
            if not bad:
                # the members present at the end read like standalone twins
                h.calculate()
                for s, tf, m in zip(specs, tfs, ms):
                    ind = h.indicators.get(m.name)
                    if ind is None:
                        continue
                    twin = X.build(s, X.mk_rows(fed), {"tf": tf} if tf else {})
                    twin.calculate()
                    own = lambda i: [(gen.to_ts(c.timestamp), impl.snap_ohlcv(c), copy.deepcopy(c.indicators.get(i.name)))
                                     for c in i.candles]  # noqa: E731  (managers are shared: own series only)
                    if own(ind) != own(twin):
                        bad = {"relation": "member-differs-from-standalone-after-remove-add"}
                        break
    except Exception as e:  # noqa
        bad = {"relation": "raises", "exc": type(e).__name__}
    if bad:
        ctx.fail({"mode": "delivery", **bad}, f"specs={specs} tfs={tfs} n={len(rows)}: {bad}",
                 {"mode": "delivery", "case": case}, size=len(rows))
        return True
    return False


def run(ctx: core.Ctx) -> int:
    proof = C.check_props("C19")
    ctx.proof_broken.extend(proof["broken"])
    rng = ctx.rng("cases")
    dist: Dict[str, int] = {}
    kinds = X.KINDS
    for _ in range(ctx.n(160, 2000)):
        n = rng.randint(1, 40)
        spec = X.gen_spec(rng, rng.choice(kinds), inputs=("close", "high"))
        rows = X.gen_rows(rng, n, late=0)
        seq = [(rng.choice(ACCESSORS + ["append"]), rng.randrange(1000)) for _ in range(rng.randint(3, 12))]
        cfg = rng.choice([{}, {}, {"tf": "T5"}, {"ha": True}])
        if cfg:
            for r in rows:
                r["inds"] = {}
            if spec["kind"] == "COUNTER":
                spec["kw"]["input_value"] = "positive"
            if spec["kw"].get("input_value") == "src":
                spec["kw"]["input_value"] = "close"
        c = {"spec": spec, "rows": rows, "seq": seq, "split": rng.randint(0, n), "cfg": cfg}
        ctx.count("eval_falsifier")
        falsify_reads(ctx, c)
        for a, _ in seq:
            dist[a] = dist.get(a, 0) + 1
        ctx.seen({"spec": spec, "seq": [s[0] for s in seq], "rows": rows}, n >= 3)
        if len(ctx.samples) < 2:
            ctx.sample({"mode": "reads", "spec": spec, "n": n, "seq": [s[0] for s in seq]})
    for _ in range(ctx.n(60, 600)):
        n = rng.randint(2, 40)
        rows = X.gen_rows(rng, n, late=0)
        specs = [X.gen_spec(rng, rng.choice([k for k in kinds if k != "AMORPH"]), inputs=("close",)) for _ in range(2)]
        for j, s in enumerate(specs):
            s["name_suffix"] = f"m{j}"
        c = {"specs": specs, "rows": rows, "tfs": [None, rng.choice([None, "T5"])]}
        ctx.count("eval_falsifier")
        falsify_hx_reads(ctx, c)
        ctx.seen({"specs": specs, "rows": rows}, True)
    for _ in range(ctx.n(120, 1200)):
        n = rng.randint(1, 30)
        rows = X.gen_rows(rng, n, late=0)
        for r in rows:
            r["inds"] = {}
        spec = X.gen_spec(rng, rng.choice(["SMA", "EMA", "OBV", "TR", "VWAP", "RSI"]), inputs=("close",))
        form = rng.choice(["dict", "dict_caps", "dict_extra", "dict_iso", "candle_iso", "list_ts_last", "list_ts_first", "candle"])
        c = {"spec": spec, "rows": rows, "form": form, "batch": rng.random() < 0.5, "tf": rng.choice(["T5", "T15", "H1"])}
        ctx.count("eval_falsifier")
        falsify_encodings(ctx, c)
        dist["form=" + form] = dist.get("form=" + form, 0) + 1
        ctx.seen({"spec": spec, "form": form, "batch": c["batch"], "rows": rows}, True)
        if len(ctx.samples) < 4:
            ctx.sample({"mode": "encodings", "spec": spec, "form": form, "batch": c["batch"], "n": n})
    for _ in range(ctx.n(40, 300)):
        n = rng.randint(8, 30)
        rows = X.gen_rows(rng, n, late=0)
        for r in rows:
            r["inds"] = {}
        c = {"rows": rows, "f": rng.choice(["rising", "falling", "highest", "lowest", "mean_rising", "value_range"]),
             "length": rng.choice([1, 2, 3]), "other": rng.choice([5, 6, 7]), "via": rng.choice(["amorph", "dict"])}
        ctx.count("eval_falsifier")
        falsify_arguments(ctx, c)
        dist["arguments"] = dist.get("arguments", 0) + 1
    hc = hxcorr.HxCorr(ctx, "C19")
    for _ in range(ctx.n(80, 800)):
        c = gen_delivery_case(rng)
        ctx.count("eval_falsifier")
        falsify_delivery(ctx, c)
        dist["delivery"] = dist.get("delivery", 0) + 1
        ctx.seen({"specs": c["specs"], "tfs": c["tfs"], "ops": [o[0] for o in c["ops"]]}, True)
        ops = [("add", c["specs"][o[1]], c["tfs"][o[1]]) if o[0] == "add" else o for o in c["ops"]]
        hc.add(c["specs"], c["tfs"], {}, c["rows"][:c["init"]], ops, rng, {"mode": "delivery"})
    hc.run()
    ctx.coverage.update({"input_distribution": dist,
                         "nontrivial_rule": "indicator over >= 3 candles with a sequence of accessors/appends; or an encoding case"})
    return core.finish(ctx, proof)


def replay(ctx: core.Ctx, rep: Dict) -> int:
    r = rep["replay"]
    f = {"reads": falsify_reads, "hx-reads": falsify_hx_reads, "encodings": falsify_encodings, "arguments": falsify_arguments,
         "delivery": falsify_delivery}[r["mode"]]
    failed = f(ctx, r["case"])
    print("REPRODUCED" if failed else "NOT-REPRODUCED")
    return 1 if failed else 0
