"""C04 - moving averages match their definitions and are position independent."""
from .. import refprop
from ..indicators import MA_KINDS


def run(ctx):
    return refprop.run(ctx, "C04", MA_KINDS, 300, 3500)


replay = refprop.replay
