"""C05 - volatility, range, channel and utility indicators match their definitions."""
from .. import refprop

KINDS = ["TR", "ATR", "STDEV", "BBANDS", "KC", "DONCHIAN", "HL", "HLA", "SUPERTREND", "STDEVTHRES", "COUNTER"]


def run(ctx):
    return refprop.run(ctx, "C05", KINDS, 300, 3500)


replay = refprop.replay
