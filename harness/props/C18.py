"""C18 - timeframe bucketing does not depend on the process time zone."""
from __future__ import annotations

import json
import os
import subprocess
import sys
from datetime import datetime
from typing import Dict, List

from .. import core, gen, impl, mgrcorr
from .. import coqrun as C
from .C03 import expected

ZONES = ["UTC", "Asia/Kolkata", "Asia/Kathmandu", "America/New_York", "Europe/London", "Australia/Lord_Howe",
         "America/St_Johns", "Pacific/Chatham"]
# naive dates on/around offset changes of the zones above (2023)
TRANSITION_DAYS = [datetime(2023, 3, 12), datetime(2023, 3, 26), datetime(2023, 4, 2), datetime(2023, 10, 1),
                   datetime(2023, 10, 29), datetime(2023, 11, 5), datetime(2023, 9, 24), datetime(2023, 4, 1)]


def gen_case(rng, ctx):
    n = rng.randint(3, 40 if not ctx.thorough else 120)
    step = rng.choice([1, 20, 60, 300, 900, 1800, 3600, 7200, 86400])
    rows = gen.gen_prices(rng, n, rng.choice(gen.REGIMES))
    if rng.random() < 0.5:
        day = rng.choice(TRANSITION_DAYS)
        start = gen.to_ts(day) + rng.choice([0, 3600, 5400, 7200, 9000, 10800, -3600, 1, 1799])
    else:
        start = None
    for r, t in zip(rows, gen.gen_timestamps(rng, n, rng.choice(gen.TS_MODES), step, start)):
        r["ts"] = t
    if rng.random() < 0.3:
        for r in rows:           # timestamps handed over as ISO strings: parsed as the same naive wall-clock time in every zone
            r["iso"] = True
    tf, tfs = gen.gen_timeframe(rng, step)
    init, chunks = gen.gen_chunks(rng, rows)
    ops = [("append", ch) for ch in chunks]
    span = rows[-1]["ts"] - rows[0]["ts"]
    cfg = {"tf": tf, "fill": rng.random() < 0.25 and span // tfs <= 400}
    return cfg, rows, init, ops, {"step": step, "tf": tf, "transition_day": start is not None}


def run_zone(zone: str, cases: List[Dict], tag: str) -> List[Dict]:
    d = core.BUILD / "tz"
    d.mkdir(parents=True, exist_ok=True)
    fin, fout = d / f"{tag}_{zone.replace('/', '_')}_in.json", d / f"{tag}_{zone.replace('/', '_')}_out.json"
    fin.write_text(json.dumps(cases))
    env = dict(os.environ)
    env["TZ"] = zone
    env["PYTHONPATH"] = str(core.REPO)
    r = subprocess.run([sys.executable, "-m", "harness.tzworker", str(fin), str(fout)], cwd=core.VERIF, env=env,
                       capture_output=True, text=True, timeout=1200)
    if r.returncode != 0:
        raise RuntimeError(f"tz worker failed under TZ={zone}: {r.stderr[-800:]}")
    out = json.loads(fout.read_text())
    fin.unlink()
    fout.unlink()
    return out


def run(ctx: core.Ctx) -> int:
    proof = C.check_props("C18")
    ctx.proof_broken.extend(proof["broken"])
    rng = ctx.rng("cases")
    n_cases = ctx.n(120, 1200)
    cases, metas = [], []
    for i in range(n_cases):
        cfg, rows, init, ops, meta = gen_case(rng, ctx)
        cases.append({"cfg": cfg, "init": init, "ops": ops, "rows": rows})
        metas.append(meta)
    results = {z: run_zone(z, cases, f"q{ctx.seed}") for z in ZONES}
    terms, idx = [], []
    per_zone_fail: Dict[str, int] = {z: 0 for z in ZONES}
    for i, c in enumerate(cases):
        tfs = mgrcorr.tf_seconds(c["cfg"]["tf"])
        ref = results["UTC"][i]
        nontrivial = len(ref["states"]) > 0 and len(ref["states"][-1]) < len(c["rows"])
        ctx.seen({"case": c["cfg"], "rows": c["rows"]}, nontrivial)
        for z in ZONES:
            ctx.count("eval_falsifier")
            got = results[z][i]
            same = (got["err"] == ref["err"] and
                    [[(s["ts"], s["ohlcv"]) for s in st] for st in got["states"]] ==
                    [[(s["ts"], s["ohlcv"]) for s in st] for st in ref["states"]])
            # without fill the final state must also be the zone-free reference resampling
            if same and got["err"] is None and not c["cfg"].get("fill") and z == "UTC":
                last = [(s["ts"],) + tuple(s["ohlcv"]) for s in got["states"][-1]]
                same = last == expected(c["rows"], tfs)
            if not same:
                per_zone_fail[z] += 1
                unit = c["cfg"]["tf"][0]
                ctx.fail({"kind": "bucketing", "relation": "differs-between-time-zones"},
                         f"collapsed candles under TZ={z} differ from TZ=UTC: tf={c['cfg']['tf']} first_ts={c['rows'][0]['ts']} n={len(c['rows'])}",
                         {"zone": z, "cfg": c["cfg"], "init": c["init"], "ops": c["ops"]}, size=len(c["rows"]))
        # correspondence: the zone-free model against what each zone produced (two zones per case keep it cheap)
        for z in ("UTC", ZONES[1 + i % (len(ZONES) - 1)]):
            got = results[z][i]
            states = [[{"ts": s["ts"], "ohlcv": tuple(s["ohlcv"]), "clean": tuple(s["clean"]) if s["clean"] else None,
                        "tag": s["tag"]} for s in st] for st in got["states"]]
            code = mgrcorr.EXN_CODES.get(got["err"], 99) if got["err"] else None
            keep = {len(states) - 1}
            term = "(%s, %s, %s, %s, %s)" % (
                mgrcorr.cfg_term(c["cfg"]), C.listlit(c["init"], mgrcorr.row_term),
                C.listlit([tuple(o) for o in c["ops"]], mgrcorr.op_term),
                C.listlit(list(enumerate(states)),
                          lambda ist: ("(Some %s)" % C.listlit(ist[1], mgrcorr.exp_cd_term)) if ist[0] in keep else "None"),
                C.optlit(code, C.zlit))
            terms.append(term)
            idx.append((i, z))
            ctx.count("eval_correspondence")
        if i < 3:
            ctx.sample({"cfg": c["cfg"], "first_ts": c["rows"][0]["ts"], "n": len(c["rows"]), "meta": metas[i],
                        "zones": ZONES})
    bad, errs = C.run_shards("C18", "tz", terms, mgrcorr.CASE_TYPE, mgrcorr.CHECKER)
    for e in errs:
        ctx.corr_disagreements.append({"relation": "check_mgr failed to evaluate", "log": e})
    for b in bad:
        i, z = idx[b]
        ctx.corr_disagreements.append({"relation": f"zone-free model != implementation under TZ={z}",
                                       "cfg": cases[i]["cfg"], "init": cases[i]["init"], "ops": cases[i]["ops"]})
    ctx.coverage.update({"zones": ZONES, "cases_per_zone": len(cases), "failures_per_zone": per_zone_fail,
                         "correspondence_cases": len(terms), "correspondence_disagreements": len(bad) + len(errs),
                         "transition_day_cases": sum(1 for m in metas if m["transition_day"]),
                         "nontrivial_rule": "stream whose collapsed list is shorter than the input"})
    ctx.assumptions.append("the OS time-zone database is an oracle: the theorem is about the zone-free model; what the "
                           "real process does under each TZ value is established by execution on the sampled streams")
    return core.finish(ctx, proof)


def replay(ctx: core.Ctx, rep: Dict) -> int:
    r = rep["replay"]
    case = {"cfg": r["cfg"], "init": r["init"], "ops": r["ops"]}
    a = run_zone("UTC", [case], "replay")[0]
    b = run_zone(r["zone"], [case], "replay")[0]
    failed = a != b
    print("REPRODUCED" if failed else "NOT-REPRODUCED", f"TZ={r['zone']} vs UTC")
    return 1 if failed else 0
