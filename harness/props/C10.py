"""C10 - outputs satisfy their structural invariants on every input."""
from __future__ import annotations

from typing import Dict, List, Optional

from .. import coqrun as C
from .. import core, engprop as E
from .. import indicators as X
from .C01 import cfg_key

S = 2e-4   # slack for identities between separately rounded fields (a few half-units at 4 decimals)


def rounded_ok(v, nd: int) -> bool:
    return v is None or isinstance(v, (bool, int)) or round(v, nd) == v


MISSING = object()


def counter_input(name: str, c: Dict):
    """The value Counter's input has on a snapshot candle (None when the reading is absent), or
    MISSING when the name is outside what this helper resolves."""
    o, h, l, cl, v = c["ohlcv"]
    if name == "positive":
        return cl > o
    if name == "negative":
        return o > cl
    if name in ("open", "high", "low", "close", "volume"):
        return {"open": o, "high": h, "low": l, "close": cl, "volume": v}[name]
    root, _, field = name.partition(".")
    if "." in field:
        return MISSING
    val = c["inds"].get(root, c["subs"].get(root)) if root in c["inds"] or root in c["subs"] else None
    if field:
        return val.get(field) if isinstance(val, dict) else val
    return val


def relations(kind: str, ind, snap: List[Dict]) -> Optional[Dict]:
    """First violated relation of the property text, or None."""
    name = ind.name
    rv = ind.round_value
    sl = S * 10.0 ** max(0, 4 - rv) if rv < 4 else S
    prev = None
    vals = [c["inds"].get(name) for c in snap]
    for i, (c, r) in enumerate(zip(snap, vals)):
        o, h, l, cl, v = c["ohlcv"]
        for x in E.all_values(r):
            if not rounded_ok(x, rv):
                return {"relation": "not-rounded-to-round_value"}
        if r is None:
            prev = r
            continue
        if kind == "RSI" and not (0 <= r <= 100):
            return {"relation": "range", "field": ""}
        if kind == "STOCH":
            # k and d are incrementally updated averages stored with 4 decimals: like SMA, one
            # rounding per candle accumulates (d averages k, so it inherits k's drift and adds its own)
            acc = {"stoch": 0.0, "k": (i + 1) * 0.5e-4, "d": 2 * (i + 1) * 0.5e-4}
            for f in ("stoch", "k", "d"):
                if r[f] is not None and not (-sl - acc[f] <= r[f] <= 100 + sl + acc[f]):
                    return {"relation": "range", "field": f}
        if kind == "AROON" and r["AROONU"] is not None:
            if not (0 <= r["AROONU"] <= 100 and 0 <= r["AROOND"] <= 100):
                return {"relation": "range", "field": "AROONU/D"}
            if abs(r["AROONOSC"] - (r["AROONU"] - r["AROOND"])) > 3 * sl:
                return {"relation": "identity", "field": "AROONOSC"}
        if kind == "ADX" and r["ADX"] is not None and not (-sl <= r["ADX"] <= 100 + sl):
            return {"relation": "range", "field": "ADX"}
        if kind == "TSI" and not (-100 - sl <= r <= 100 + sl):
            return {"relation": "range", "field": ""}
        if kind == "TR" and not (r >= round(h - l, rv) - sl and h - l >= 0):
            return {"relation": "TR>=high-low>=0"}
        if kind == "ATR" and r < 0:
            return {"relation": "ATR>=0"}
        if kind == "STDEV" and r < 0:
            return {"relation": "stdev>=0"}
        if kind == "BBANDS" and r["BBM"] is not None and not (r["BBL"] <= r["BBM"] <= r["BBU"]):
            return {"relation": "band-order"}
        if kind == "KC" and r["band"] is not None and not (r["lower"] <= r["band"] <= r["upper"]):
            return {"relation": "band-order"}
        if kind == "DONCHIAN" and r["DCU"] is not None:
            if not (r["DCL"] <= r["DCM"] <= r["DCU"]) or not (r["DCL"] <= l + sl and h - sl <= r["DCU"]):
                return {"relation": "band-order-or-enclosure"}
            if abs(r["DCM"] - (r["DCU"] + r["DCL"]) / 2) > sl:
                return {"relation": "identity", "field": "DCM"}
        if kind == "MACD" and r["histogram"] is not None and abs(r["histogram"] - (r["MACD"] - r["signal"])) > 2 * sl:
            return {"relation": "identity", "field": "histogram"}
        if kind == "SUPERTREND":
            if r["direction"] not in (1, -1):
                return {"relation": "direction"}
            if r["trend"] is not None or r["long"] is not None or r["short"] is not None:
                # once a band exists: exactly one side is set, on the side of the direction, and it is the trend
                if (r["long"] is None) == (r["short"] is None):
                    return {"relation": "long-xor-short"}
                if (r["direction"] == 1 and (r["long"] is None or r["long"] != r["trend"])) or \
                        (r["direction"] == -1 and (r["short"] is None or r["short"] != r["trend"])):
                    return {"relation": "trend-equals-side"}
        if kind in ("SMA", "WMA", "VWMA", "EMA", "RMA"):
            src = getattr(ind, "input_value", "close")
            xs = [s["ohlcv"][{"open": 0, "high": 1, "low": 2, "close": 3}[src]] for s in snap] if src in ("open", "high", "low", "close") else None
            if xs is not None:
                p = ind.period
                w = xs[:i + 1] if kind in ("EMA", "RMA") else xs[max(0, i - p + 1):i + 1]
                # SMA is updated incrementally from its own rounded reading: one rounding per candle accumulates
                acc = (i + 1) * 0.5 * 10.0 ** (-rv) if kind == "SMA" else 0.0
                if not (min(w) - sl - acc <= r <= max(w) + sl + acc):
                    return {"relation": "average-within-input-range"}
        if kind == "OBV" and prev is not None and abs(r - prev) not in (0, v):
            return {"relation": "OBV-step"}
        if kind == "COUNTER":
            if not (isinstance(r, int) and not isinstance(r, bool) and r >= 0):
                return {"relation": "counter-type"}
            if prev is not None and not (r == prev + 1 or r == 0 or r == prev):
                return {"relation": "counter-step"}
            # against the counted input itself: a run grows by one while the input equals the counted
            # value, resets when it differs, and stands still only while the input is missing
            x = counter_input(ind.input_value, c)
            if x is not MISSING:
                p0 = prev if isinstance(prev, int) else 0
                want = p0 if x is None else (p0 + 1 if x == ind.count_value else 0)
                if r != want:
                    return {"relation": "counter-vs-input"}
        prev = r
    return None


def falsify(ctx, case: Dict) -> bool:
    spec, cfg, rows, init, chunks = case["spec"], case["cfg"], case["rows"], case["init"], case["chunks"]
    try:
        with core.time_limit(40):
            ind = X.build(spec, X.mk_rows(init), cfg)
            ind.calculate()
            for ch in chunks:
                ind.append(X.mk_rows(ch))
            bad = relations(spec["kind"], ind, E.snapshot(ind))
            if bad is None and ind.candles and len(rows) % 2 == 0:
                # the relations - rounding to round_value in particular - also hold for readings that
                # were computed again: a recomputed index, a recomputed range, a whole recalculate()
                n_c = len(ind.candles)
                i = (len(rows) * 7 + 3) % n_c
                ind.calculate_index(i)
                ind.calculate_index(-1)
                # the oldest candle, which has no previous candle to read from
                ind.calculate_index(0 if len(rows) % 4 == 0 else -n_c)
                if n_c > 3:
                    ind.calculate_index(max(0, i - 2), min(n_c, i + 2))
                bad = relations(spec["kind"], ind, E.snapshot(ind))
                if bad is None and len(rows) % 4 == 0:
                    ind.recalculate()
                    bad = relations(spec["kind"], ind, E.snapshot(ind))
                if bad:
                    bad = {**bad, "after": "recomputation"}
    except Exception:  # noqa  (C09's subject)
        return False
    if bad:
        ctx.fail({"kind": spec["kind"], **bad}, f"{spec} cfg={cfg} n={len(rows)}: {bad}", {"case": case}, size=len(rows))
        return True
    return False


def falsify_chain(ctx, case: Dict) -> bool:
    """A Counter over another member's reading, registered after that member through
    add_indicator, with candles arriving afterwards: the run it counts must follow the input
    reading of the very same candle."""
    from .. import hx
    rows, k = case["rows"], case["split"]
    try:
        with core.time_limit(40):
            base = X.build(case["base"], [], {})
            h = hx.hexital(rows[:k], [base], case["cfg"])
            dep = X.build({"kind": "COUNTER", "kw": {"input_value": case["input"].replace("$", base.name),
                                                      "count_value": case["count_value"]}, "round_value": 4}, [], {})
            if case["late_add"]:
                h.add_indicator(dep)
            else:
                h.add_indicator([dep])
            h.calculate()
            for i in range(k, len(rows), case["chunk"]):
                h.append(X.mk_rows(rows[i:i + case["chunk"]]))
            snap = hx.hx_snapshot(h)["default"]
            bad = relations("COUNTER", dep, snap)
    except Exception:  # noqa  (C09's subject)
        ctx.count("chained_member_raised")
        return False
    if bad:
        ctx.fail({"kind": "COUNTER", **bad, "where": "chained-member"},
                 f"Counter over {case['input']} of {case['base']} added by add_indicator, n={len(rows)} split={k}: {bad}",
                 {"chain": case}, size=len(rows))
        return True
    return False


def gen_chain(rng, ctx) -> Dict:
    n = rng.randint(12, 60)
    rows = X.gen_rows(rng, n, rng.choice(["walk", "mixed", "eqclose", "up", "down"]))
    for r in rows:
        r["inds"] = {}
    which = rng.choice(["supertrend", "stdevthres", "amorph"])
    if which == "supertrend":
        base = {"kind": "SUPERTREND", "kw": {"period": rng.choice([2, 3, 5]), "multiplier": rng.choice([1.0, 2.0, 3.0])}, "round_value": 4}
        inp, cv = "$.direction", rng.choice([1, -1])
    elif which == "stdevthres":
        base = {"kind": "STDEVTHRES", "kw": {"period": rng.choice([2, 3, 5]), "multiplier": rng.choice([0.5, 1.0]), "input_value": "close"}, "round_value": 4}
        inp, cv = "$", rng.choice([True, False])
    else:
        base = {"kind": "AMORPH", "kw": {}, "analysis": {"f": "positive_list" if False else "doji", "lookback": None}, "round_value": 4}
        inp, cv = "$", rng.choice([True, False])
    cfg = {"tf": rng.choice([None, None, "T2", "T3"])}
    return {"rows": rows, "split": rng.randint(0, n // 2), "chunk": rng.choice([1, 1, 2, 5]), "base": base,
            "input": inp, "count_value": cv, "cfg": cfg, "late_add": rng.random() < 0.5}


def run(ctx: core.Ctx) -> int:
    proof = C.check_props("C10")
    ctx.proof_broken.extend(proof["broken"])
    rng = ctx.rng("cases")
    corr = E.Corr(ctx, "C10")
    dist: Dict[str, int] = {}
    cases = [c["case"] for c in E.load_corpus("C10")]
    kinds = [k for k in X.KINDS if k not in ("AMORPH", "HL", "HLA", "ROC", "STDEVTHRES", "VWAP", "HMA")]
    for _ in range(ctx.n(420, 5000)):
        c = E.gen_case(rng, ctx, kinds, allow_ha=False, inputs_base=("close", "close", "high", "low"))
        cases.append(c)
    for k_ in range(ctx.n(9, 90)):
        # Supertrend over identical candles whose mid-price is exactly multiplier * range: the active band
        # sits at exactly 0.0 - a value, not a missing reading
        m_ = (1, 2, 3)[k_ % 3]
        lo_, hi_ = {1: (2, 6), 2: (3, 5), 3: (5, 7)}[m_]
        scale_ = rng.choice([1, 1, 2])
        lo_, hi_ = lo_ * scale_, hi_ * scale_
        mid_ = (lo_ + hi_) / 2
        n_ = rng.randint(12, 30)
        rows_ = [{"ts": 1700000000 + 60 * j_, "open": mid_, "high": float(hi_), "low": float(lo_), "close": mid_, "volume": 10, "inds": {}}
                 for j_ in range(n_)]
        init_, chunks_ = rows_[:rng.randint(0, 3)], []
        rest_ = rows_[len(init_):]
        while rest_:
            m2_ = rng.choice([1, 2, 5])
            chunks_.append(rest_[:m2_])
            rest_ = rest_[m2_:]
        cases.append({"spec": {"kind": "SUPERTREND", "kw": {"period": rng.choice([2, 3, 7]), "multiplier": float(m_)}, "round_value": 4},
                      "cfg": {}, "rows": rows_, "init": init_, "chunks": chunks_,
                      "meta": {"kind": "SUPERTREND", "n": n_, "step": 60, "ts_mode": "regular", "cfg": {}}})
    for c in cases:
        ctx.count("eval_falsifier")
        falsify(ctx, c)
        ops = [("calculate",)] + [("append", ch) for ch in c["chunks"]]
        corr.add(c["spec"], c["cfg"], c["init"], ops, rng, c.get("meta"))
        if "meta" in c:
            E.record_distribution(ctx, dist, c)
        ctx.seen({"spec": c["spec"], "cfg": c["cfg"], "rows": c["rows"]}, len(c["rows"]) >= 2 * c["spec"]["kw"].get("period", 2))
        if len(ctx.samples) < 3 and len(c["rows"]) > 10:
            ctx.sample({"spec": c["spec"], "cfg": c["cfg"], "n": len(c["rows"])})
    for _ in range(ctx.n(60, 600)):
        ctx.count("eval_falsifier_chained_member")
        falsify_chain(ctx, gen_chain(rng, ctx))
    corr.run()
    ctx.coverage.update({"input_distribution": dist,
                         "nontrivial_rule": "stream at least twice as long as the indicator's period",
                         "slack_rule": "identities between separately rounded fields may differ by a few half-units of the last stored decimal (2e-4 at 4 decimals)"})
    return core.finish(ctx, proof)


def replay(ctx: core.Ctx, rep: Dict) -> int:
    if "chain" in rep["replay"]:
        failed = falsify_chain(ctx, rep["replay"]["chain"])
        print("REPRODUCED" if failed else "NOT-REPRODUCED")
        return 1 if failed else 0
    failed = falsify(ctx, rep["replay"]["case"])
    print("REPRODUCED" if failed else "NOT-REPRODUCED")
    return 1 if failed else 0
