"""C02 - readings of closed candles are final: no look-ahead, no repainting."""
from __future__ import annotations

from typing import Dict, List

from .. import coqrun as C
from .. import core, engprop as E
from .. import indicators as X
from .C01 import cfg_key


def closed(snap: List[Dict], cfg: Dict) -> List[Dict]:
    return snap[:-1] if cfg.get("tf") else snap


def is_prefix(a: List[Dict], b: List[Dict]):
    if len(a) > len(b):
        return (len(b), "length")
    return E.same_snapshot(a, b[:len(a)])


def falsify(ctx, case: Dict) -> bool:
    spec, cfg, rows, init, chunks = case["spec"], case["cfg"], case["rows"], case["init"], case["chunks"]
    bad = None
    try:
        with core.time_limit(40):
            live = X.build(spec, X.mk_rows(init), cfg)
            live.calculate()
            snaps = [E.snapshot(live)]
            for ch in chunks:
                live.append(X.mk_rows(ch))
                snaps.append(E.snapshot(live))
            for a, b in zip(snaps, snaps[1:]):
                d = is_prefix(closed(a, cfg), b)
                if d is not None:
                    bad = {"relation": "repaint-on-append", "what": d[1]}
                    break
            if bad is None and len(snaps) > 2:
                d = is_prefix(closed(snaps[len(snaps) // 2], cfg), snaps[-1])
                if d is not None:
                    bad = {"relation": "repaint-on-append", "what": d[1]}
            if bad is None and len(rows) >= 2:
                whole = X.build(spec, X.mk_rows(rows), cfg)
                whole.calculate()
                ws = E.snapshot(whole)
                for k in case.get("cuts", []):
                    part = X.build(spec, X.mk_rows(rows[:k]), cfg)
                    part.calculate()
                    d = is_prefix(closed(E.snapshot(part), cfg), ws)
                    if d is not None:
                        bad = {"relation": "batch-look-ahead", "what": d[1]}
                        break
    except Exception as e:  # noqa  (totality is C09's subject)
        return False
    if bad:
        sig = {"kind": spec["kind"], **bad, "cfg": cfg_key(cfg)}
        if spec["kind"] == "AMORPH":
            sig["function"] = spec["analysis"]["f"]
        ctx.fail(sig, f"{spec} cfg={cfg} n={len(rows)} init={len(init)}: {bad}", {"case": case}, size=len(rows))
        return True
    return False


def run(ctx: core.Ctx) -> int:
    proof = C.check_props("C02")
    ctx.proof_broken.extend(proof["broken"])
    rng = ctx.rng("cases")
    corr = E.Corr(ctx, "C02")
    dist: Dict[str, int] = {}
    cases = [c["case"] for c in E.load_corpus("C02")]
    n_corpus = len(cases)
    for _ in range(ctx.n(260, 3000)):
        c = E.gen_case(rng, ctx, X.KINDS + ["AMORPH"] * 3, allow_ha=False)
        n = len(c["rows"])
        c["cuts"] = sorted({rng.randint(1, n) for _ in range(3)}) if n >= 2 else []
        cases.append(c)
    for _ in range(ctx.n(30, 300)):
        c = E.gen_pattern_tf_case(rng, ctx)
        n = len(c["rows"])
        c["cuts"] = sorted({rng.randint(1, n) for _ in range(3)})
        cases.append(c)
    for k in range(ctx.n(24, 240)):
        c = E.gen_pattern_base_case(rng, ctx, k)
        n = len(c["rows"])
        c["cuts"] = sorted({rng.randint(1, n) for _ in range(2)} | {rng.randint(3, 10)})
        cases.append(c)
    for k in range(ctx.n(18, 180)):
        c = E.gen_cross_base_case(rng, ctx, k)
        n = len(c["rows"])
        c["cuts"] = sorted({rng.randint(1, n) for _ in range(2)} | {rng.randint(1, 4)})
        cases.append(c)
    for i, c in enumerate(cases):
        ctx.count("eval_falsifier")
        falsify(ctx, c)
        ops = [("calculate",)] + [("append", ch) for ch in c["chunks"]]
        corr.add(c["spec"], c["cfg"], c["init"], ops, rng, c.get("meta"))
        if "meta" in c:
            E.record_distribution(ctx, dist, c)
        ctx.seen({"spec": c["spec"], "cfg": c["cfg"], "rows": c["rows"]}, len(c["rows"]) >= 4 and len(c["chunks"]) >= 1)
        if len(ctx.samples) < 3 and len(c["rows"]) > 6:
            ctx.sample({"spec": c["spec"], "cfg": c["cfg"], "n": len(c["rows"]), "init": len(c["init"]),
                        "cuts": c.get("cuts"), "chunk_sizes": [len(x) for x in c["chunks"]][:10]})
    corr.run()
    ctx.coverage.update({"input_distribution": dist, "corpus_cases": n_corpus,
                         "nontrivial_rule": "stream of >= 4 candles with at least one append"})
    return core.finish(ctx, proof)


def replay(ctx: core.Ctx, rep: Dict) -> int:
    failed = falsify(ctx, rep["replay"]["case"])
    print("REPRODUCED" if failed else "NOT-REPRODUCED")
    return 1 if failed else 0
