"""C03 - timeframe collapsing equals right-closed, right-labelled OHLCV resampling."""
from __future__ import annotations

from typing import Dict, List

from .. import core, gen, impl, mgrcorr
from .. import coqrun as C


def label(ts: int, tf: int) -> int:
    return -((-ts) // tf) * tf


def ref_resample(rows: List[Dict], tf: int) -> List[Dict]:
    """Independent reference: consecutive runs of equal bucket label (k*tf, (k+1)*tf]."""
    out: List[Dict] = []
    for r in rows:
        L = label(r["ts"], tf)
        if out and out[-1]["ts"] == L:
            b = out[-1]
            b["high"] = max(b["high"], r["high"])
            b["low"] = min(b["low"], r["low"])
            b["close"] = r["close"]
            b["volume"] += r["volume"]
        else:
            out.append({"ts": L, "open": r["open"], "high": r["high"], "low": r["low"],
                        "close": r["close"], "volume": r["volume"]})
    return out


def observed(states_last: List[Dict]) -> List[tuple]:
    return [(s["ts"],) + tuple(s["ohlcv"]) for s in states_last]


def expected(rows: List[Dict], tf: int) -> List[tuple]:
    return [(b["ts"], b["open"], b["high"], b["low"], b["close"], b["volume"]) for b in ref_resample(rows, tf)]


def gen_case(rng, ctx):
    n = rng.choice([0, 1, 2, 3]) if rng.random() < 0.08 else rng.randint(4, 60 if not ctx.thorough else 200)
    rows, meta = gen.gen_stream(rng, n)
    tf, tfs = gen.gen_timeframe(rng, meta["step"])
    if rows and rows[0]["ts"] >= 0 and rng.random() < 0.15:
        us = rng.choice([1, 500000, 700000, 999999])      # a fraction of a second on every timestamp
        for r in rows:
            r["us"] = us
        meta["subsecond"] = True
    init, chunks = gen.gen_chunks(rng, rows)
    ops = []
    for ch in chunks:
        ops.append(("append", ch))
        if rng.random() < 0.15:
            ops.append(("collapse",))
    if rng.random() < 0.3:
        ops.append(("collapse",))
    cfg = {"tf": tf}
    meta.update({"tf": tf, "init": len(init), "chunks": len(chunks)})
    return cfg, rows, init, ops, meta


def falsify_one(ctx, cfg, rows, init, ops, meta) -> bool:
    """The property stated directly over the implementation.  Returns True when it fails."""
    tfs = mgrcorr.tf_seconds(cfg["tf"])
    states, err = impl.run_manager(cfg, init, ops)
    fed = list(init)
    bad = None
    if err is not None:
        bad = {"relation": "exception", "exc": err}
    else:
        k = 0
        for st, op in zip(states, [("init",)] + ops):
            if op[0] == "append":
                fed = fed + op[1]
            exp = expected(fed, tfs)
            got = observed(st)
            if got != exp:
                rel = "buckets"
                if [g[0] for g in got] != [e[0] for e in exp]:
                    rel = "labels"
                bad = {"relation": rel, "step": op[0]}
                break
            if sum(g[5] for g in got) != sum(r["volume"] for r in fed):
                bad = {"relation": "volume"}
                break
            k += 1
    if bad:
        sig = {"kind": "collapse", **{k: v for k, v in bad.items() if k != "step"}}
        ctx.fail(sig, f"collapse != resample ({bad}) tf={cfg['tf']} n={len(rows)} meta={meta}",
                 {"cfg": cfg, "init": init, "ops": ops}, size=len(rows))
        return True
    return False


def run(ctx: core.Ctx) -> int:
    proof = C.check_props("C03")
    ctx.proof_broken.extend(proof["broken"])
    rng = ctx.rng("cases")
    n_cases = ctx.n(240, 3000)
    terms, metas = [], []
    dist: Dict[str, int] = {}
    for i in range(n_cases):
        cfg, rows, init, ops, meta = gen_case(rng, ctx)
        ctx.count("eval_falsifier")
        falsify_one(ctx, cfg, rows, init, ops, meta)
        term, states, err = mgrcorr.case_term(cfg, init, ops, rng)
        terms.append(term)
        metas.append((cfg, init, ops, meta))
        ctx.count("eval_correspondence")
        nontrivial = len(rows) >= 4 and states and len(states[-1]) < len(rows)
        ctx.seen({"cfg": cfg, "rows": rows, "ops": [o[0] for o in ops]}, nontrivial)
        for k in ("regime", "ts_mode", "tf"):
            dist[f"{k}={meta[k]}"] = dist.get(f"{k}={meta[k]}", 0) + 1
        if i < 3:
            ctx.sample({"cfg": cfg, "n": len(rows), "init": len(init), "ops": [o[0] for o in ops],
                        "first_rows": rows[:3], "collapsed_len": len(states[-1]) if states else None, "exc": err})
    bad, errs = C.run_shards("C03", "mgr", terms, mgrcorr.CASE_TYPE, mgrcorr.CHECKER)
    for e in errs:
        ctx.corr_disagreements.append({"relation": "check_mgr (Run/Check.v) failed to evaluate", "log": e})
    for i in bad:
        cfg, init, ops, meta = metas[i]
        ctx.corr_disagreements.append({"relation": "check_mgr: model state != implementation state",
                                       "cfg": cfg, "init": init, "ops": ops, "meta": meta})
    ctx.coverage.update({
        "correspondence_cases": len(terms), "correspondence_disagreements": len(bad) + len(errs),
        "input_distribution": dist,
        "nontrivial_rule": "stream of >= 4 candles whose collapsed list is shorter than the input (at least one merge happened)",
    })
    ctx.assumptions.append("process TZ forced to UTC for this check; zone independence is C18's subject")
    return core.finish(ctx, proof)


def replay(ctx: core.Ctx, rep: Dict) -> int:
    r = rep["replay"]
    failed = falsify_one(ctx, r["cfg"], r["init"] + [x for o in r["ops"] if o[0] == "append" for x in o[1]],
                         r["init"], [tuple(o) for o in r["ops"]], {})
    print("REPRODUCED" if failed else "NOT-REPRODUCED")
    return 1 if failed else 0
