"""C08 - indicators inside a Hexital behave exactly like the same indicators standalone."""
from __future__ import annotations

import copy
from typing import Dict, List, Optional

from .. import analysis as A
from .. import coqrun as C
from .. import core, engprop as E, gen, hx, hxcorr
from .. import indicators as X

from hexital import Hexital  # noqa: E402

TF_LADDER = ["T1", "T5", "T15", "H1"]
TF_MIX = ["T2", "T3", "T5", "T10", "T15", "T45", "H1", "H2"]
TF_MIX5 = ["T10", "T15", "T45", "H1", "H2"]
REPOP_KINDS = ("SMA", "EMA", "WMA", "RMA", "ROC", "TR", "OBV", "HLA", "DONCHIAN", "AROON", "HL", "VWMA")


def member_view(ind) -> List[Dict]:
    """The member's candles with the readings its own tree wrote."""
    return E.snapshot(ind)


def project(snap: List[Dict], keys_i, keys_s) -> List[Dict]:
    return [{"ts": s["ts"], "ohlcv": s["ohlcv"], "inds": {k: v for k, v in s["inds"].items() if k in keys_i},
             "subs": {k: v for k, v in s["subs"].items() if k in keys_s}} for s in snap]


def falsify(ctx, case: Dict) -> bool:
    specs, tfs, rows, hcfg, init_n, form = case["specs"], case["tfs"], case["rows"], case["hcfg"], case["init"], case["form"]
    bad = None
    stage = "build"
    try:
        with core.time_limit(60):
            def make_members():
                objs = [hx.member(s, tf) for s, tf in zip(specs, tfs)]
                if len({m.name for m in objs}) != len(objs):
                    return None, None
                if form == "object":
                    members = objs
                elif form == "settings":
                    members = [m.settings for m in objs]
                else:  # hand-written dict
                    members = []
                    for s, tf in zip(specs, tfs):
                        d = {"indicator": {"STDEV": "STDEV", "HL": "HL", "HLA": "HLA", "SUPERTREND": "Supertrend", "COUNTER": "Counter",
                                           "DONCHIAN": "donchian", "AROON": "aroon"}.get(s["kind"], s["kind"]), **s["kw"],
                             "round_value": s.get("round_value", 4)}
                        if s.get("fullname"):
                            d["fullname_override"] = s["fullname"]
                        if tf:
                            d["timeframe"] = tf
                        if tf and s.get("own_ha"):
                            d["candlestick_type"] = "HA"
                        if s["kind"] == "AMORPH":
                            a = s["analysis"]
                            # arguments of the analysis function go under "args" (a top-level "indicator"
                            # key would be taken for the indicator class name)
                            d = {"analysis": a["f"] if a["f"] != "inverted_hammer" else "inv_hammer",
                                 "args": A.kwargs_of(a), "round_value": s.get("round_value", 4)}
                            if s.get("fullname"):
                                d["fullname_override"] = s["fullname"]
                            if tf:
                                d["timeframe"] = tf
                        members.append(d)
                return objs, members
            objs, members = make_members()
            if objs is None:
                return False
            h = hx.hexital(rows[:init_n], members, hcfg)
            stage = "calculate"
            h.calculate()
            stage = "append"
            for ch in case["chunks"]:
                h.append(X.mk_rows(ch))
            if set(h.indicators) != {m.name for m in objs}:
                bad = {"relation": "member-names-differ", "form": form}
            if bad is None and hcfg.get("lifespan") is None:
                # a Hexital rebuilt from Hexital.indicator_settings over the same schedule reads the same
                stage = "indicator_settings"
                h2 = hx.hexital(rows[:init_n], h.indicator_settings, hcfg)
                h2.calculate()
                for ch in case["chunks"]:
                    h2.append(X.mk_rows(ch))
                for nm_ in h.indicators:
                    if nm_ not in h2.indicators or not E.same_value_list(h2.indicators[nm_].as_list(), h.indicators[nm_].as_list()):
                        bad = {"relation": "rebuilt-from-indicator_settings-differs", "form": form}
                        break
            stage = "standalone"
            raw0 = [(gen.to_ts(c.timestamp),) + (c.open, c.high, c.low, c.close, c.volume) for c in h.candles()]
            for s, tf, o in zip(specs, tfs, objs):
                if bad:
                    break
                eff = {"tf": tf or hcfg.get("tf"), "fill": hcfg.get("fill"), "ha": hcfg.get("ha"), "lifespan": hcfg.get("lifespan")}
                alone = X.build(s, X.mk_rows(rows[:init_n]), eff)
                alone.calculate()
                for ch in case["chunks"]:
                    alone.append(X.mk_rows(ch))
                inside = h.indicator(o.name)
                a = member_view(alone)
                keys_i = {k for c in a for k in c["inds"]}
                keys_s = {k for c in a for k in c["subs"]}
                d = E.same_snapshot(project(member_view(inside), keys_i, keys_s), project(a, keys_i, keys_s))
                if d is not None:
                    bad = {"relation": "member-differs-from-standalone", "what": d[1], "kind": s["kind"],
                           "own_tf": bool(tf), "ha": bool(hcfg.get("ha"))}
                    if hcfg.get("lifespan") is not None and tf and init_n > 0:
                        # a manager created for a member's own timeframe is seeded from the default
                        # manager's candles, which the lifespan has already trimmed
                        bad = {"relation": "member-differs-from-standalone", "what": d[1], "own_tf": True,
                               "seeded_from_trimmed_candles": True}
                    elif hcfg.get("tf") and hcfg.get("fill") and tf and init_n > 1:
                        # ... and which the Hexital-level timeframe_fill has already padded with fill
                        # candles on the default grid; they are merged into the member's buckets.
                        # Confirmed per case: the same Hexital fed everything through append agrees
                        objs2, members2 = make_members()
                        h2 = hx.hexital([], members2, hcfg)
                        h2.append(X.mk_rows(rows[:init_n]))
                        for ch in case["chunks"]:
                            h2.append(X.mk_rows(ch))
                        d2 = E.same_snapshot(project(member_view(h2.indicator(o.name)), keys_i, keys_s), project(a, keys_i, keys_s))
                        if d2 is None:
                            bad = {"relation": "member-differs-from-standalone", "what": d[1], "own_tf": True,
                                   "seeded_from_filled_candles": True}
                elif case.get("repopulate") and s["kind"] in REPOP_KINDS and len(inside.candles) > 2:
                    # the same further operations on both: readings wiped, the newest computed first, the rest
                    # filled in by calculate()
                    stage = "repopulate"
                    h.purge(o.name)
                    h.calculate_index(o.name, -1)
                    h.calculate()
                    alone.purge()
                    alone.calculate_index(-1)
                    alone.calculate()
                    d = E.same_snapshot(project(member_view(h.indicator(o.name)), keys_i, keys_s), project(member_view(alone), keys_i, keys_s))
                    if d is not None:
                        bad = {"relation": "member-differs-from-standalone", "what": d[1], "kind": s["kind"], "after": "repopulate"}
            if bad is None and not hcfg.get("ha") and not hcfg.get("tf") and hcfg.get("lifespan") is None:
                want = [(r["ts"], r["open"], r["high"], r["low"], r["close"], r["volume"]) for r in rows]
                if raw0 != want:
                    bad = {"relation": "base-candles-altered"}
    except Exception as e:  # noqa
        bad = {"relation": "raises", "exc": type(e).__name__, "stage": stage, "form": form}
        if form != "object":
            bad["kinds"] = sorted({s["kind"] for s in specs})[:1]
        if stage in ("calculate", "append"):
            # not a difference if a standalone twin fed the same schedule raises the same exception
            # (e.g. a lifespan that trims away a look-back: C15's hypothesis, not C08's subject)
            for s, tf in zip(specs, tfs):
                eff = {"tf": tf or hcfg.get("tf"), "fill": hcfg.get("fill"), "ha": hcfg.get("ha"), "lifespan": hcfg.get("lifespan")}
                try:
                    with core.time_limit(30):
                        alone = X.build(s, X.mk_rows(rows[:init_n]), eff)
                        alone.calculate()
                        for ch in case["chunks"]:
                            alone.append(X.mk_rows(ch))
                except Exception as e2:  # noqa
                    if type(e2).__name__ == type(e).__name__:
                        bad = None
                        break
    if bad:
        ctx.fail(bad, f"specs={specs} tfs={tfs} hcfg={hcfg} form={form} n={len(rows)} init={init_n}: {bad}",
                 {"case": case}, size=len(rows))
        return True
    return False


def gen_case(rng, ctx) -> Dict:
    n = rng.randint(3, 60 if not ctx.thorough else 160)
    step = rng.choice([20, 60, 60, 300])
    rows = X.gen_rows(rng, n, step=step, ts_mode=rng.choice(["regular", "jitter", "gaps", "biggaps"]), late=0)
    for r in rows:
        r["inds"] = {}
    hcfg: Dict = {}
    if rng.random() < 0.3:
        hcfg["tf"] = rng.choice(TF_LADDER[:2])
    if rng.random() < 0.3:
        hcfg["fill"] = True      # also without a Hexital-level timeframe: it governs the members' own timeframes
    if rng.random() < 0.25:
        hcfg["ha"] = True
    if rng.random() < 0.2:
        hcfg["lifespan"] = rng.choice([step * 20, step * 50, 3600 * 5])
    specs, tfs = [], []
    mixed = rng.random() < 0.4
    for j in range(rng.randint(1, 4)):
        s = X.gen_spec(rng, rng.choice(X.KINDS), inputs=("close", "high"))
        if s["kind"] == "COUNTER":
            s["kw"]["input_value"] = rng.choice(["positive", "negative"])
        s["fullname"] = f"M{j}_{s['kind']}"
        lo = TF_LADDER.index(hcfg["tf"]) + 1 if hcfg.get("tf") else 0
        tf = rng.choice([None, None] + TF_LADDER[lo:]) if lo < len(TF_LADDER) else None
        if mixed:
            # any mix: member timeframes need not divide one another (multiples of the base timeframe only)
            tf = rng.choice([None] + (TF_MIX if hcfg.get("tf") != "T5" else [t for t in TF_MIX if t in TF_MIX5]))
        if tf and rng.random() < 0.3:
            # the member carries settings of its own for its candles; inside a Hexital the Hexital's
            # settings are the ones that count (as for timeframe_fill)
            s["own_ha"] = rng.random() < 0.7
            s["own_fill"] = rng.random() < 0.5
        specs.append(s)
        tfs.append(tf)
    if rng.random() < 0.35:
        # a sibling: same kind, same parameters, same timeframe, another input and another name - a helper series
        # named after anything less than the member's full name would be shared between the two
        k = rng.randrange(len(specs))
        if rng.random() < 0.6:
            # ... of a kind that keeps helper series (sub-indicators or a managed "<name>_data" series)
            s = X.gen_spec(rng, rng.choice(["RSI", "STDEV", "VWAP", "MACD", "KC", "BBANDS", "STOCH", "SUPERTREND", "ADX", "TSI",
                                            "HMA", "STDEVTHRES", "RSI", "STDEV"]), inputs=("close", "high"))
            s["fullname"] = f"M{len(specs)}_{s['kind']}"
            specs.append(s)
            tfs.append(tfs[k])
            k = len(specs) - 1
        sib = copy.deepcopy(specs[k])
        if sib["kind"] != "COUNTER" and "input_value" in sib["kw"]:
            sib["kw"]["input_value"] = "close" if sib["kw"]["input_value"] == "high" else "high"
        sib["fullname"] = f"M{len(specs)}_{sib['kind']}_sib"
        specs.append(sib)
        tfs.append(tfs[k])
    init_n = rng.choice([0, 1, n, rng.randint(0, n)])
    rest = rows[init_n:]
    chunks, i = [], 0
    while i < len(rest):
        m = rng.randint(1, 6)
        chunks.append(rest[i:i + m])
        i += m
    if hcfg.get("fill"):
        for tf in [hcfg.get("tf")] + tfs:
            if tf and rows and (rows[-1]["ts"] - rows[0]["ts"]) // (gen.UNITS[tf[0]] * int(tf[1:])) > 300:
                hcfg.pop("fill", None)
    # timeframes are accepted in either case
    tfs = [t.lower() if t and rng.random() < 0.25 else t for t in tfs]
    return {"specs": specs, "tfs": tfs, "rows": rows, "hcfg": hcfg, "init": init_n, "chunks": chunks,
            "form": rng.choice(["object", "object", "settings", "dict"]), "repopulate": rng.random() < 0.5}


def run(ctx: core.Ctx) -> int:
    proof = C.check_props("C08")
    ctx.proof_broken.extend(proof["broken"])
    rng = ctx.rng("cases")
    dist: Dict[str, int] = {}
    cases = [c["case"] for c in E.load_corpus("C08")]
    for _ in range(ctx.n(220, 2500)):
        cases.append(gen_case(rng, ctx))
    corr = hxcorr.HxCorr(ctx, "C08")
    for c in cases:
        ctx.count("eval_falsifier")
        falsify(ctx, c)
        spec_f = [{k: v for k, v in s.items()} for s in c["specs"]]
        corr.add(spec_f, c["tfs"], c["hcfg"], c["rows"][:c["init"]],
                 [("calculate", None)] + [("append", ch) for ch in c["chunks"]], rng)
        dist["form=" + c["form"]] = dist.get("form=" + c["form"], 0) + 1
        for k in ("tf", "fill", "ha", "lifespan"):
            if c["hcfg"].get(k):
                dist["hexital." + k] = dist.get("hexital." + k, 0) + 1
        dist["members=%d" % len(c["specs"])] = dist.get("members=%d" % len(c["specs"]), 0) + 1
        dist["own_tf"] = dist.get("own_tf", 0) + sum(1 for t in c["tfs"] if t)
        ctx.seen({k: c[k] for k in ("specs", "tfs", "hcfg", "rows", "init", "form")}, len(c["rows"]) >= 4)
        if len(ctx.samples) < 3:
            ctx.sample({"specs": c["specs"], "tfs": c["tfs"], "hcfg": c["hcfg"], "form": c["form"], "n": len(c["rows"]),
                        "init": c["init"], "chunk_sizes": [len(x) for x in c["chunks"]][:8]})
    corr.run()
    ctx.coverage.update({"input_distribution": dist,
                         "nontrivial_rule": "Hexital over >= 4 candles; members compared with standalone twins fed the same schedule"})
    return core.finish(ctx, proof)


def replay(ctx: core.Ctx, rep: Dict) -> int:
    failed = falsify(ctx, rep["replay"]["case"])
    print("REPRODUCED" if failed else "NOT-REPRODUCED")
    return 1 if failed else 0
