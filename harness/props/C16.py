"""C16 - pattern and movement functions are causal and index-consistent."""
from __future__ import annotations

from typing import Dict, List

from .. import analysis as A
from .. import core, impl
from .. import coqrun as C

import hexital.indicators as I  # noqa: E402


def falsify_direct(ctx, rows: List[Dict], spec: Dict, i: int) -> bool:
    """f(cs, i) == f(cs[:i+1]) == f(cs, i-len); never raises on missing readings."""
    cs = A.mk(rows)
    n = len(cs)
    a = A.outcome(spec, cs, i)
    b = A.outcome(spec, A.mk(rows[:i + 1]), None)
    c = A.outcome(spec, cs, i - n)
    bad = None
    if a[0] == "exc" or b[0] == "exc" or c[0] == "exc":
        bad = {"relation": "raises", "exc": (a if a[0] == "exc" else b if b[0] == "exc" else c)[1]}
    elif a != b:
        bad = {"relation": "depends-on-later-candles-or-default-index"}
    elif a != c:
        bad = {"relation": "negative-index-differs"}
    if bad:
        sig = {"kind": "analysis", "function": spec["f"], **bad}
        if "lookback" in spec:
            sig["lookback"] = spec["lookback"] is not None
        ctx.fail(sig, f"{spec} at index {i} of {n}: at-index={a} truncated-default={b} negative={c}",
                 {"mode": "direct", "rows": rows, "spec": spec, "index": i}, size=n)
        return True
    return False


def falsify_wrapper(ctx, rows: List[Dict], spec: Dict, split: int) -> bool:
    """Amorph(function) gives the same column live and in batch, equal to the function at each index."""
    kw = A.kwargs_of(spec)
    f = A.PY[spec["f"]]

    def build(rs):
        return I.Amorph(analysis=f, candles=A.mk(rs), **kw)

    bad = None
    try:
        with core.time_limit(20):
            batch = build(rows)
            batch.calculate()
            live = build(rows[:split])
            live.calculate()
            for r in rows[split:]:
                live.append(A.mk([r]))
            col_b, col_l = batch.as_list(), live.as_list()
            direct = [A.outcome(spec, A.mk(rows), i) for i in range(len(rows))]
    except Exception as e:  # noqa
        bad = {"relation": "raises", "exc": type(e).__name__}
    if bad is None:
        if col_b != col_l:
            bad = {"relation": "live-column-differs-from-batch"}
        elif [("ok", v) for v in col_b] != [(k, round(v, 4) if isinstance(v, float) else v) for k, v in direct]:
            bad = {"relation": "column-differs-from-function"}
    if bad:
        sig = {"kind": "analysis-wrapper", "function": spec["f"], **bad}
        ctx.fail(sig, f"Amorph({spec}) n={len(rows)} split={split}: {bad}",
                 {"mode": "wrapper", "rows": rows, "spec": spec, "split": split}, size=len(rows))
        return True
    return False


def run(ctx: core.Ctx) -> int:
    proof = C.check_props("C16")
    ctx.proof_broken.extend(proof["broken"])
    rng = ctx.rng("cases")
    terms, metas = [], []
    dist: Dict[str, int] = {}
    n_lists = ctx.n(90, 900)
    for k in range(n_lists):
        n = rng.choice([1, 2, 3, 5, 8, 12, 15, 24, 40])
        mode = rng.choice(["missing", "missing", "clean", "wild"])
        rows = A.gen_candles(rng, n, mode)
        planted = []
        if n >= 12 and rng.random() < 0.6:
            for _ in range(3):
                pi, kind = rng.randrange(10, n), rng.choice(A.PATTERNS)
                if A.plant(rows, pi, kind):
                    planted.append((pi, kind))

        if n >= 11:
            # a pattern shape inside the warm-up (index < 10) of a longer list: the answer there is
            # False, as on the list truncated after that candle; the four patterns take turns
            pi, kind = rng.randrange(2, 9), A.PATTERNS[k % len(A.PATTERNS)]
            if A.plant(rows, pi, kind, early=True):
                planted.insert(0, (pi, kind))
        early_probes = []
        if n >= 12 and k % 2 == 0:
            # the pattern on the NEWEST candle, asked about at the first indices: an explicit index 0 or 1
            # is an index, not "the latest candle"
            kind_last = A.PATTERNS[(k // 2) % len(A.PATTERNS)]
            if all(q < n - 2 for q, _ in planted) and A.plant(rows, n - 1, kind_last):
                planted.append((n - 1, kind_last))
                early_probes = [({"f": kind_last, "lookback": None}, 0), ({"f": kind_last, "lookback": 2}, 1)]
        probes = []
        for spec_e, i_e in early_probes:
            dist[spec_e["f"]] = dist.get(spec_e["f"], 0) + 1
            if mode != "wild":
                ctx.count("eval_falsifier")
                falsify_direct(ctx, rows, spec_e, i_e)
            cs_e = A.mk(rows)
            for idx in (i_e, i_e - n):
                probes.append((spec_e, idx, A.outcome(spec_e, cs_e, idx)))
                ctx.count("eval_correspondence")
        for j in range(10):
            if planted and j < 2 * len(planted):
                pi, kind = planted[j % len(planted)]
                spec = {"f": kind, "lookback": None if j < len(planted) else rng.choice([1, 2, 5])}
                i = min(n - 1, pi + (0 if spec["lookback"] is None else rng.randrange(spec["lookback"])))
            else:
                spec = A.gen_spec(rng)
                i = rng.randrange(n)
            dist[spec["f"]] = dist.get(spec["f"], 0) + 1
            if mode != "wild":
                ctx.count("eval_falsifier")
                falsify_direct(ctx, rows, spec, i)
            # correspondence probes: at the index, at the default, at the negative index, out of range
            cs = A.mk(rows)
            for idx in (i, None, i - n, rng.choice([n, -n - 1, n + 3])):
                probes.append((spec, idx, A.outcome(spec, cs, idx)))
                ctx.count("eval_correspondence")
            ctx.seen({"rows": rows, "spec": spec, "i": i}, n >= 3)
        terms.append(A.case_term(rows, probes))
        metas.append((rows, probes))
        if k < 2:
            ctx.sample({"n": n, "mode": mode, "first_candle": rows[0], "probes": [[p[0], p[1], list(p[2])] for p in probes[:3]]})
    for k in range(ctx.n(60, 600)):
        n = rng.choice([3, 6, 12, 20, 30])
        rows = A.gen_candles(rng, n, rng.choice(["missing", "clean"]))
        spec = A.gen_spec(rng)
        ctx.count("eval_falsifier")
        falsify_wrapper(ctx, rows, spec, rng.choice([0, 1, 1, 2, rng.randrange(n)]))
    bad, errs = C.run_shards("C16", "afun", terms, A.CASE_TYPE, A.CHECKER)
    for e in errs:
        ctx.corr_disagreements.append({"relation": "check_afun failed to evaluate", "log": e})
    for b in bad:
        rows, probes = metas[b]
        ctx.corr_disagreements.append({"relation": "check_afun: model of hexital.analysis.* != implementation result",
                                       "rows": rows, "probes": [[p[0], p[1], list(p[2])] for p in probes]})
    ctx.coverage.update({"correspondence_cases": len(terms), "correspondence_probes": sum(len(m[1]) for m in metas),
                         "correspondence_disagreements": len(bad) + len(errs), "input_distribution": dist,
                         "nontrivial_rule": "candle list of >= 3 candles with a (function, arguments, index) probe"})
    return core.finish(ctx, proof)


def replay(ctx: core.Ctx, rep: Dict) -> int:
    r = rep["replay"]
    if r["mode"] == "direct":
        failed = falsify_direct(ctx, r["rows"], r["spec"], r["index"])
    else:
        failed = falsify_wrapper(ctx, r["rows"], r["spec"], r["split"])
    print("REPRODUCED" if failed else "NOT-REPRODUCED")
    return 1 if failed else 0
