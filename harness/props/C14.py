"""C14 - maintenance operations are idempotent and always converge to the batch state."""
from __future__ import annotations

import copy
from typing import Dict, List

from .. import coqrun as C
from .. import core, engprop as E, hx, hxcorr
from .. import indicators as X


def keys_by_candle(ind) -> List[tuple]:
    return [(tuple(c.indicators.keys()), tuple(c.sub_indicators.keys())) for c in ind.candles]


def falsify_single(ctx, case: Dict) -> bool:
    """One indicator: calculate twice, recalculate, purge, calculate_index (+/-)."""
    spec, rows, probes = case["spec"], case["rows"], case["probes"]
    bad = None
    stage = "build"
    try:
        with core.time_limit(40):
            if case.get("split") is not None:
                # met the stream through appends: what recalculate() replaces are those readings
                k_ = case["split"]
                ind = X.build(spec, X.mk_rows(rows[:k_]), case.get("cfg", {}))
                ind.calculate()
                j_ = k_
                while j_ < len(rows):
                    ind.append(X.mk_rows(rows[j_:j_ + case["step"]]))
                    j_ += case["step"]
                twin = X.build(spec, X.mk_rows(rows), case.get("cfg", {}))
                base_keys = keys_by_candle(twin)
            else:
                ind = X.build(spec, X.mk_rows(rows), case.get("cfg", {}))
                base_keys = keys_by_candle(ind)
            ind.calculate()
            s1 = E.snapshot(ind)
            stage = "calculate-again"
            ind.calculate()
            if E.same_snapshot(s1, E.snapshot(ind)) is not None:
                bad = {"relation": "calculate-not-idempotent"}
            stage = "calculate_index"
            n = len(ind.candles)
            for i in probes:
                if bad or n == 0:
                    break
                i = i % n
                top = ind.candles[i].indicators.get(ind.name)
                warm = top is not None and all(v is not None for v in E.all_values(top)) and i >= 1 and \
                    all(ind.candles[j].indicators.get(ind.name) is not None for j in range(i))
                if not warm:
                    continue
                for idx, how in ((i, "positive"), (i - n, "negative")):
                    ind.calculate_index(idx)
                    d = E.same_snapshot(s1, E.snapshot(ind))
                    if d is not None:
                        bad = {"relation": "calculate_index-changes-a-computed-reading", "index": how, "what": d[1]}
                        break
                    ctx.count("eval_calc_index")
            if bad is None:
                stage = "recalculate"
                ind.recalculate()
                if E.same_snapshot(s1, E.snapshot(ind)) is not None:
                    bad = {"relation": "recalculate-differs"}
            if bad is None:
                stage = "purge"
                ind.purge()
                if keys_by_candle(ind) != base_keys:
                    left = sorted({k for (a, b), (x, y) in zip(keys_by_candle(ind), base_keys) for k in (set(a) - set(x)) | (set(b) - set(y))})
                    bad = {"relation": "purge-leaves-or-removes-entries", "left": bool(left)}
                stage = "calculate-after-purge"
                ind.calculate()
                if bad is None and E.same_snapshot(s1, E.snapshot(ind)) is not None:
                    bad = {"relation": "calculate-after-purge-differs"}
    except Exception as e:  # noqa
        bad = {"relation": "raises", "exc": type(e).__name__, "stage": stage}
    if bad:
        ctx.fail({"kind": spec["kind"], **bad}, f"{spec} n={len(rows)} probes={probes}: {bad}",
                 {"mode": "single", "case": case}, size=len(rows))
        return True
    return False


def owned_names(ind) -> set:
    """Names of the series an indicator writes: its own and its helpers' at any depth."""
    out = {ind.name}
    for sub in [*ind.sub_indicators.values(), *ind.managed_indicators.values()]:
        out |= owned_names(sub)
    return out


def all_keys(h) -> List[set]:
    return [set(c.indicators) | set(c.sub_indicators) for cs in h.get_candles().values() for c in cs]


def apply(h, ops_log, op, members):
    k = op[0]
    if k == "append":
        h.append(X.mk_rows(op[1]))
    elif k == "calculate":
        h.calculate(op[1])
    elif k == "purge":
        h.purge(op[1])
    elif k == "recalculate":
        h.recalculate(op[1])
    elif k == "calc_index":
        h.calculate_index(op[1], op[2])
    elif k == "remove":
        h.remove_indicator(op[1])
    elif k == "add":
        h.add_indicator(hx.member(op[1]))


def falsify_program(ctx, case: Dict) -> bool:
    """Random operation sequence on a Hexital, then calculate(): must equal the batch state."""
    specs, rows, init, ops = case["specs"], case["rows"], case["init"], case["ops"]
    bad = None
    stage = None
    try:
        with core.time_limit(60):
            ms = [hx.member(s, s.get("tf")) for s in specs]
            names = [m.name for m in ms]
            if len(set(names)) != len(names):
                return False
            h = hx.hexital(init, ms)
            fed = list(init)
            active = list(specs)
            for op in ops:
                stage = op[0]
                op2 = list(op)
                if op[0] in ("calculate", "purge", "recalculate", "remove", "calc_index") and op[1] is not None:
                    op2[1] = names[op[1]] if isinstance(op[1], int) else op[1]
                if op[0] == "calc_index" and op2[1] is None:
                    # calculate_index() for every member at once: each resolves the index against its own
                    # candle list (members on other timeframes have shorter lists); only when everything
                    # is calculated and the index exists in every list
                    inds = list(h.indicators.values())
                    shortest = min((len(i_.candles) for i_ in inds), default=0)
                    if not inds or shortest == 0 or not all(all(i_.name in c.indicators for c in i_.candles) for i_ in inds):
                        continue
                    j = op[2] % shortest
                    apply(h, None, ("calc_index", None, j if op[3] else j - shortest), ms)
                    continue
                if op[0] == "calc_index":
                    # only indices whose reading and predecessors are already computed
                    target = h.indicators.get(op2[1]) if op2[1] else None
                    cs = h.candles()
                    if not cs or target is None:
                        continue
                    i = op[2] % len(cs)
                    if not all(target.name in c.indicators for c in cs[:i + 1]):
                        continue
                    op2[2] = i if op[3] else i - len(cs)
                if op[0] == "remove":
                    if op2[1] in h.indicators:
                        active = [s for s, nm in zip(active, [m for m in h.indicators]) if nm != op2[1]]
                if op[0] == "add":
                    new = hx.member(op[1], op[1].get("tf"))
                    if new.name in h.indicators:
                        continue
                    active.append(op[1])
                    h.add_indicator(new)
                    continue
                if op[0] == "append":
                    fed = fed + op[1]
                before = all_keys(h) if op[0] == "purge" and op2[1] in h.indicators else None
                table = None
                if op[0] == "recalculate":
                    # recalculate([name]) reproduces the readings it replaces and touches nothing else
                    table = {nm: (copy.deepcopy(i_.as_list()), all(i_.name in c.indicators for c in i_.candles))
                             for nm, i_ in h.indicators.items()}
                apply(h, None, tuple(op2[:3]) if op[0] == "calc_index" else tuple(op2), ms)
                if table is not None:
                    for nm, (was, full) in table.items():
                        aimed = op2[1] is None or op2[1] == nm
                        if aimed and not full:
                            continue
                        if nm in h.indicators and not E.same_value_list(h.indicators[nm].as_list(), was):
                            bad = {"relation": "recalculate-changes-readings", "of": "the-recalculated" if aimed else "another-indicator"}
                            break
                    if bad:
                        break
                if before is not None:
                    # purge(name) removes that indicator's entries and nothing else
                    gone = set().union(*[b - a for b, a in zip(before, all_keys(h))]) if before else set()
                    others = set().union(*[owned_names(o) for nm_, o in h.indicators.items() if nm_ != op2[1]]) \
                        if len(h.indicators) > 1 else set()
                    if gone & others:
                        bad = {"relation": "purge-removes-entries-of-another-indicator"}
                        break
                    # ... and every entry of the purged indicator's own tree (helper series at any depth) is gone
                    mine = owned_names(h.indicators[op2[1]])
                    left = set().union(*all_keys(h)) & (mine - others) if all_keys(h) else set()
                    if left:
                        bad = {"relation": "purge-leaves-entries-of-the-purged-indicator"}
                        break
            if bad:
                raise StopIteration
            stage = "final-calculate"
            h.calculate()
            final = {nm: copy.deepcopy(ind.as_list()) for nm, ind in h.indicators.items()}
            batch = hx.hexital(fed, [hx.member(s, s.get("tf")) for s in active])
            batch.calculate()
            want = {nm: ind.as_list() for nm, ind in batch.indicators.items()}
            if final.keys() != want.keys():
                bad = {"relation": "indicator-set-differs"}
            else:
                for nm in want:
                    if not E.same_value_list(final[nm], want[nm]):
                        bad = {"relation": "final-calculate-differs-from-batch", "indicator": batch.indicators[nm]._name or type(batch.indicators[nm]).__name__}
                        break
    except StopIteration:
        pass
    except Exception as e:  # noqa
        bad = {"relation": "raises", "exc": type(e).__name__, "stage": stage}
    if bad:
        ctx.fail({"mode": "program", **bad}, f"specs={specs} n={len(rows)} ops={[o[0] for o in ops]}: {bad}",
                 {"mode": "program", "case": case}, size=len(rows) + len(ops))
        return True
    return False


def gen_program(rng, ctx) -> Dict:
    n = rng.randint(5, 50 if not ctx.thorough else 120)
    rows = X.gen_rows(rng, n, late=0)
    kinds = [k for k in X.KINDS if k not in ("AMORPH", "COUNTER")]
    specs = []
    shared = rng.random() < 0.35
    family = rng.choice([["ATR", "ATR"], ["ATR", "KC"], ["SUPERTREND", "ADX"], ["KC", "SUPERTREND", "ATR"]])
    for j in range(len(family) if shared else rng.randint(1, 3)):
        # indicators of one family share the parameterless helper series "TR"
        s = X.gen_spec(rng, family[j] if shared else rng.choice(kinds), inputs=("close", "high"))
        s["round_value"] = 4
        s["name_suffix"] = f"m{len(specs)}"
        specs.append(s)
    k = rng.randint(0, n)
    init, rest = rows[:k], rows[k:]
    ops = []
    i = 0
    while i < len(rest):
        r = rng.random()
        who = rng.choice([None] + list(range(len(specs))))
        if r < (0.25 if shared else 0.45):
            m = rng.randint(1, 5)
            ops.append(("append", rest[i:i + m]))
            i += m
        elif r < 0.55:
            ops.append(("calculate", who))
        elif r < 0.68:
            ops.append(("purge", who))
        elif r < 0.8:
            ops.append(("recalculate", who))
        elif r < 0.92:
            # index -1 (the newest candle) is the default of Hexital.calculate_index
            ops.append(("calc_index", rng.randrange(len(specs)), -1 if rng.random() < 0.5 else rng.randrange(1000), rng.random() < 0.5))
        elif r < 0.96 and len(specs) > 1:
            ops.append(("remove", rng.randrange(len(specs))))
        else:
            s = X.gen_spec(rng, rng.choice(kinds), inputs=("close",))
            s["round_value"] = 4
            s["name_suffix"] = f"x{len(ops)}"
            ops.append(("add", s))
    # maintenance operations after the last append (nothing but the final calculate() follows them)
    for _ in range(rng.choice([0, 1, 2, 3, 4])):
        r = rng.random()
        who = rng.choice([None] + list(range(len(specs))))
        if r < 0.35:
            ops.append(("purge", who))
        elif r < 0.5:
            ops.append(("recalculate", who))
        elif r < 0.9:
            ops.append(("calc_index", rng.randrange(len(specs)), -1 if rng.random() < 0.6 else rng.randrange(1000), rng.random() < 0.5))
        else:
            ops.append(("calculate", who))
    return {"specs": specs, "rows": rows, "init": init, "ops": ops}


def gen_shared_helper_program(rng, ctx) -> Dict:
    """Members that share the parameterless helper series 'TR', fully calculated, then a few
    maintenance operations aimed at single members, then (in falsify_program) calculate()."""
    n = rng.randint(12, 45)
    rows = X.gen_rows(rng, n, late=0)
    family = rng.choice([["ATR", "ATR"], ["ATR", "KC"], ["SUPERTREND", "ADX"], ["KC", "SUPERTREND", "ATR"], ["ADX", "ATR"]])
    specs = []
    for j, k in enumerate(family):
        s = X.gen_spec(rng, k, inputs=("close",))
        s["round_value"] = 4
        s["name_suffix"] = f"m{j}"
        specs.append(s)
    ops = [("calculate", None)]
    for _ in range(rng.randint(2, 4)):
        r = rng.random()
        who = rng.randrange(len(specs))
        if r < 0.45:
            ops.append(("purge", who))
        elif r < 0.9:
            ops.append(("calc_index", who, -1 if rng.random() < 0.7 else rng.randrange(1000), rng.random() < 0.5))
        else:
            ops.append(("recalculate", who))
    return {"specs": specs, "rows": rows, "init": rows, "ops": ops}


def gen_mixed_tf_program(rng, ctx) -> Dict:
    """Members on candle lists of different lengths (the raw candles and one or two collapsing
    timeframes, in either registration order), fully calculated; then calculate_index for all
    members at once with negative and positive indices, and a few other maintenance operations."""
    n = rng.randint(30, 120)
    rows = X.gen_rows(rng, n, late=0, step=60)
    specs = []
    tfs = [None, rng.choice(["T5", "T10"])] + ([rng.choice(["T15", "T3"])] if rng.random() < 0.3 else [])
    rng.shuffle(tfs)
    for j, tf in enumerate(tfs):
        s = X.gen_spec(rng, rng.choice(["EMA", "SMA", "RSI", "ATR", "OBV", "MACD", "BBANDS", "STOCH"]), inputs=("close",))
        s["round_value"] = 4
        s["name_suffix"] = f"t{j}"
        if tf:
            s["tf"] = tf
        specs.append(s)
    ops = [("calculate", None)]
    for _ in range(rng.randint(2, 5)):
        r = rng.random()
        if r < 0.7:
            ops.append(("calc_index", None, -1 if rng.random() < 0.4 else rng.randrange(1000), rng.random() < 0.3))
        elif r < 0.85:
            ops.append(("calc_index", rng.randrange(len(specs)), -1 if rng.random() < 0.5 else rng.randrange(1000), rng.random() < 0.5))
        else:
            ops.append(("recalculate", rng.choice([None] + list(range(len(specs))))))
    return {"specs": specs, "rows": rows, "init": rows, "ops": ops}


def gen_prefix_program(rng, ctx) -> Dict:
    """Two members whose names are related by "<name>" / "<name>_<suffix>" (so the second one's
    helper series start with the first one's name), possibly on a shared collapsing timeframe;
    maintenance aimed at one of them in the middle of the stream, appends after it."""
    tf = rng.choice(["T2", "T5", "T10"]) if rng.random() < 0.4 else None
    n = rng.randint(15, 50) if tf is None else rng.randint(40, 160)
    rows = X.gen_rows(rng, n, late=0)
    k = rng.choice(["RSI", "STDEV", "SUPERTREND", "ADX", "STOCH", "TSI", "MACD", "BBANDS", "KC", "HMA", "ATR", "VWAP", "EMA", "SMA"])
    a = X.gen_spec(rng, k, inputs=("close",))
    a["round_value"] = 4
    if rng.random() < 0.6:
        b = {"kind": k, "kw": dict(a["kw"]), "round_value": 4, "name_suffix": rng.choice(["hi", "b", "x2"])}
        if k in X.HAS_INPUT:
            b["kw"]["input_value"] = rng.choice(["high", "close"])
    else:
        b = X.gen_spec(rng, rng.choice(["EMA", "SMA", "RSI", "ATR", "BBANDS"]), inputs=("close", "high"))
        b["round_value"] = 4
        b["name_suffix"] = "o"
    specs = [a, b] if rng.random() < 0.5 else [b, a]
    for s_ in specs:
        if tf:
            s_["tf"] = tf
    cut = rng.randint(0, n - 1)
    mid = rng.randint(cut, n - 1)
    ops = [("calculate", None)] if rng.random() < 0.7 else []
    ops += [("append", [r]) for r in rows[cut:mid]]
    for _ in range(rng.randint(1, 3)):
        r = rng.random()
        who = rng.randrange(2)
        ops.append(("purge", who) if r < 0.4 else ("recalculate", who) if r < 0.6 else ("remove", who) if r < 0.85 else ("calculate", who))
    ops += [("append", [r]) for r in rows[mid:]]
    return {"specs": specs, "rows": rows, "init": rows[:cut], "ops": ops}


def corr_ops(rng, ops: List, n_members: int) -> List:
    """The program in the form the Hexital correspondence takes (members named by position).
    calculate_index is kept only for members that a calculate() has initialised: before that
    the helper series of an indicator do not exist yet (outside the model, and outside the
    property, which asks for indices whose readings are already computed)."""
    out = []
    inited = set()
    for op in ops:
        if op[0] == "append" and op[1]:
            inited = set(range(n_members))
        elif op[0] in ("calculate", "recalculate"):
            inited |= set(range(n_members)) if op[1] is None else {op[1]}
        if op[0] == "calc_index":
            if op[1] is None:
                if len(inited) < n_members:
                    continue
                out.append(("calc_index", None, -1 if op[2] == -1 else -(op[2] % 5) - 1))
                continue
            if op[1] not in inited:
                continue
            idx = -1 if (op[2] == -1 or rng.random() < 0.5) else (op[2] % 6 if op[3] else op[2] % 6 - 6)
            out.append(("calc_index", op[1], idx))
        elif op[0] == "add":
            out.append(("add", op[1], op[1].get("tf")))
        else:
            out.append(tuple(op))
    return out


def run(ctx: core.Ctx) -> int:
    proof = C.check_props("C14")
    ctx.proof_broken.extend(proof["broken"])
    rng = ctx.rng("cases")
    corr = E.Corr(ctx, "C14")
    dist: Dict[str, int] = {}
    singles = [c["case"] for c in E.load_corpus("C14") if c.get("mode") == "single"]
    for _ in range(ctx.n(200, 2500)):
        kind = rng.choice(X.KINDS)
        n = rng.randint(3, 50 if not ctx.thorough else 140)
        spec = X.gen_spec(rng, kind, ctx.thorough, inputs=("close", "high", "src"))
        rows = X.gen_rows(rng, n)
        c_ = {"spec": spec, "rows": rows, "cfg": {}, "probes": [rng.randrange(1000) for _ in range(3)]}
        if rng.random() < 0.3:
            c_["split"], c_["step"] = rng.randint(0, n), rng.choice([1, 1, 2, 5])
        singles.append(c_)
    for k_ in range(ctx.n(16, 160)):
        # pattern wrappers over streams with planted shapes (one of them on the newest candle), fed through appends
        pc = E.gen_pattern_base_case(rng, ctx, k_)
        from .. import analysis as A_
        A_.plant(pc["rows"], len(pc["rows"]) - 1, pc["spec"]["analysis"]["f"])
        singles.append({"spec": pc["spec"], "rows": pc["rows"], "cfg": {}, "probes": [rng.randrange(1000) for _ in range(3)],
                        "split": rng.randint(0, 3), "step": rng.choice([1, 1, 2])})
    for c in singles:
        ctx.count("eval_falsifier")
        falsify_single(ctx, c)
        n = len(c["rows"])
        i = c["probes"][0] % max(1, n)
        # a single index, or a range [start, end) of indices (end may be negative too)
        end = None
        if n > 2 and rng.random() < 0.4:
            end = rng.choice([min(n, i + rng.randint(1, 4)), -1, n])
        ops = [("calculate",), ("calculate",), ("calc_index", rng.choice([i, i - n, -1]) if n else -1, end),
               ("recalculate",), ("purge",), ("calculate",)]
        corr.add(c["spec"], {}, c["rows"], ops, rng, {"kind": c["spec"]["kind"]})
        dist[c["spec"]["kind"]] = dist.get(c["spec"]["kind"], 0) + 1
        ctx.seen({"spec": c["spec"], "rows": c["rows"]}, n >= 4)
        if len(ctx.samples) < 2 and n > 8:
            ctx.sample({"mode": "single", "spec": c["spec"], "n": n, "probes": c["probes"]})
    programs = [c["case"] for c in E.load_corpus("C14") if c.get("mode") == "program"]
    for _ in range(ctx.n(120, 1500)):
        programs.append(gen_program(rng, ctx))
    for _ in range(ctx.n(60, 700)):
        programs.append(gen_shared_helper_program(rng, ctx))
    for _ in range(ctx.n(80, 900)):
        programs.append(gen_prefix_program(rng, ctx))
    for _ in range(ctx.n(50, 500)):
        programs.append(gen_mixed_tf_program(rng, ctx))
    hc = hxcorr.HxCorr(ctx, "C14")
    for c in programs:
        ctx.count("eval_falsifier")
        falsify_program(ctx, c)
        hc.add(c["specs"], [s_.get("tf") for s_ in c["specs"]], {}, c["init"], corr_ops(rng, c["ops"], len(c["specs"])), rng)
        for o in c["ops"]:
            dist["op=" + o[0]] = dist.get("op=" + o[0], 0) + 1
        ctx.seen({"specs": c["specs"], "ops": [o[0] for o in c["ops"]], "rows": c["rows"]}, len(c["ops"]) >= 3)
        if len(ctx.samples) < 4:
            ctx.sample({"mode": "program", "specs": c["specs"], "n": len(c["rows"]), "init": len(c["init"]),
                        "ops": [o[0] for o in c["ops"]][:15]})
    corr.run()
    hc.run()
    ctx.coverage.update({"input_distribution": dist,
                         "nontrivial_rule": "single-indicator case with >= 4 candles, or operation program with >= 3 operations"})
    return core.finish(ctx, proof)


def replay(ctx: core.Ctx, rep: Dict) -> int:
    r = rep["replay"]
    failed = falsify_single(ctx, r["case"]) if r["mode"] == "single" else falsify_program(ctx, r["case"])
    print("REPRODUCED" if failed else "NOT-REPRODUCED")
    return 1 if failed else 0
