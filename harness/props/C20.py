"""C20 - all ways of asking for a reading give the same answer."""
from __future__ import annotations

from typing import Dict, List

from .. import coqrun as C
from .. import acccorr, core, engprop as E, hx
from .. import indicators as X

from hexital.utils.candles import reading_by_candle  # noqa: E402


def names_of(spec: Dict, ind) -> List[str]:
    """The plain name and, for dict-valued readings, every dotted field name."""
    out = [ind.name]
    for c in ind.candles:
        r = c.indicators.get(ind.name)
        if isinstance(r, dict):
            out += [f"{ind.name}.{k}" for k in r]
            break
    return out


def direct_entry(c, ind, nm: str):
    """Direct inspection of the candle: the entry stored under the indicator's name (a
    top-level indicator writes into candle.indicators), and the field of it for a dotted name."""
    base = c.indicators.get(ind.name)
    if nm == ind.name:
        return base
    field = nm[len(ind.name) + 1:]
    return base.get(field) if isinstance(base, dict) else base


def falsify(ctx, case: Dict) -> bool:
    specs, rows, tfs, after = case["specs"], case["rows"], case["tfs"], case.get("after")
    bad = None
    try:
        with core.time_limit(40):
            ms = [hx.member(s, tf) for s, tf in zip(specs, tfs)]
            if len({m.name for m in ms}) != len(ms):
                return False
            h = hx.hexital(rows, ms, case.get("hcfg"))
            h.calculate()
            if after == "calc_index_mid" and len(rows) > 3:
                for m in ms:
                    if len(m.candles) > 2:
                        m.calculate_index(len(m.candles) // 2)
            if after == "repopulate" and len(rows) > 3:
                # readings wiped, the newest one computed first, the rest filled in afterwards: the
                # accessors still describe the candles as they are
                for m, sp in zip(ms, specs):
                    if sp["kind"] in ("SMA", "EMA", "WMA", "RMA", "ROC", "TR", "OBV", "HLA", "DONCHIAN", "AROON", "HL", "COUNTER", "VWMA") and len(m.candles) > 2:
                        m.purge()
                        m.calculate_index(-1)
                        m.calculate()
            # a reading series with holes in it (as a user function wrapped by Amorph or a manually set
            # Managed series produces), carried by the default candles: counted through a default-timeframe member
            for m in ms:
                if bad or m.timeframe is not None or not any("gappy" in c.indicators for c in m.candles):
                    continue
                col = [c.indicators.get("gappy") for c in m.candles]
                trailing = 0
                for v in reversed(col):
                    if v is None:
                        break
                    trailing += 1
                if m.reading_count("gappy") != trailing:
                    bad = {"relation": "reading_count", "series": "with-holes"}
                elif not E.same_value_list(m.as_list("gappy"), col):
                    bad = {"relation": "as_list-vs-candles", "series": "with-holes"}
                break
            for m, spec in zip(ms, specs):
                if bad:
                    break
                cs = m.candles
                n = len(cs)
                for nm in names_of(spec, m):
                    direct = [reading_by_candle(c, nm) for c in cs]
                    if not E.same_value_list(direct, [direct_entry(c, m, nm) for c in cs]):
                        bad = {"relation": "reading_by_candle-vs-stored-entry"}
                    elif not E.same_value_list(m.as_list(nm), direct):
                        bad = {"relation": "as_list-vs-candles"}
                    elif not E.same_value_list(h.reading_as_list(nm), direct):
                        bad = {"relation": "Hexital.reading_as_list-vs-candles"}
                    for i in case["probe"]:
                        if bad or n == 0:
                            break
                        i = i % n
                        vals = {"reading(+i)": m.reading(nm, i), "reading(-i)": m.reading(nm, i - n),
                                "read_candle": m.read_candle(cs[i], nm), "direct": direct[i]}
                        # Hexital.reading looks the name up in every timeframe's candles with that index
                        vals["Hexital.reading(+i)"] = h.reading(nm, i)
                        vals["Hexital.reading(-i)"] = h.reading(nm, i - n)
                        base = vals["direct"]
                        for k, v in vals.items():
                            if not E.same_value(v, base):
                                bad = {"relation": "accessors-disagree", "accessor": k}
                                break
                    if bad:
                        break
                    if n and after in (None, "repopulate"):
                        # after a calculate() the indicator's own cursor is on the newest candle: reading() and
                        # prev_reading() without an index are the newest and the one before it
                        if not E.same_value(m.reading(nm), direct[-1]):
                            bad = {"relation": "Indicator.reading()-default-index"}
                            break
                        if not E.same_value(m.prev_reading(nm), direct[-2] if n > 1 else None):
                            bad = {"relation": "Indicator.prev_reading()-default-index"}
                            break
                    if n:
                        latest = direct[-1]
                        if m.has_reading != (m.reading(index=-1) is not None) or (nm == m.name and m.has_reading != (latest is not None)):
                            bad = {"relation": "Indicator.has_reading"}
                        elif (m.timeframe is None) and h.has_reading(nm) != (latest is not None):
                            bad = {"relation": "Hexital.has_reading", "falsy": latest is not None and not latest}
                        elif (m.timeframe is None) and not E.same_value(h.prev_reading(nm), direct[-2] if n > 1 else None):
                            bad = {"relation": "Hexital.prev_reading"}
                        else:
                            trailing = 0
                            for v in reversed(direct):
                                if v is None:
                                    break
                                trailing += 1
                            if m.reading_count(nm) != trailing:
                                bad = {"relation": "reading_count"}
                    if bad:
                        break
                if bad:
                    if "has_reading" not in bad["relation"]:
                        bad["kind"] = spec["kind"]
                    break
    except Exception as e:  # noqa
        bad = {"relation": "raises", "exc": type(e).__name__}
    if bad:
        if after:
            bad["after"] = after
        ctx.fail(bad, f"specs={specs} tfs={tfs} n={len(rows)} after={after}: {bad}", {"case": case}, size=len(rows))
        return True
    return False


def run(ctx: core.Ctx) -> int:
    proof = C.check_props("C20")
    ctx.proof_broken.extend(proof["broken"])
    rng = ctx.rng("cases")
    dist: Dict[str, int] = {}
    cases = [c["case"] for c in E.load_corpus("C20")]
    kinds = [k for k in X.KINDS if k != "AMORPH"]
    for _ in range(ctx.n(260, 3000)):
        n = rng.randint(1, 60 if not ctx.thorough else 150)
        hcfg = {"fill": True} if rng.random() < 0.3 else {}
        rows = X.gen_rows(rng, n, late=0, regime=rng.choice(["flat", "walk", "up", "eqclose", "mixed", "zero_vol"]),
                          ts_mode=rng.choice(["gaps", "biggaps", "biggaps"]) if hcfg else "regular")
        if not hcfg and rng.random() < 0.6:
            for i_, r in enumerate(rows):
                if i_ in (0, len(rows) - 1) and rng.random() < 0.7:
                    r["inds"]["gappy"] = float(i_)
                elif rng.random() < 0.75:
                    r["inds"]["gappy"] = round(rng.uniform(-5, 5), 2)
                else:
                    r["inds"]["gappy"] = None
        # now and then the Hexital has a timeframe of its own, and a member names that very timeframe
        # explicitly (it then lives on a second manager with the same label)
        own_tf = rng.choice(["T2", "T5"]) if rng.random() < 0.25 else None
        if own_tf:
            hcfg = {**hcfg, "tf": own_tf}
        specs, tfs = [], []
        for j in range(rng.randint(1, 3)):
            # indicators that legitimately read 0 / False: Counter, OBV on zero volume, STDEVTHRES, TR on flat candles
            k = rng.choice(kinds + ["COUNTER", "OBV", "STDEVTHRES", "TR", "STDEV"])
            s = X.gen_spec(rng, k, inputs=("close", "high"))
            # user-chosen suffixes may contain a dot (the library keeps dots out of the final name)
            s["name_suffix"] = rng.choice([f"m{j}", f"m{j}", f"m{j}", f"{j}.5", f"v{j}.0"])
            specs.append(s)
            tfs.append(rng.choice([None, None, "T5", "T15"]) if not own_tf else rng.choice([None, None, own_tf, own_tf, "T15"]))
        cases.append({"specs": specs, "rows": rows, "tfs": tfs, "probe": [rng.randrange(1000) for _ in range(3)],
                      "after": rng.choice([None, None, "calc_index_mid", "repopulate"]), "hcfg": hcfg})
    ac = acccorr.AccCorr(ctx, "C20")
    for c in cases:
        ctx.count("eval_falsifier")
        falsify(ctx, c)
        try:
            with core.time_limit(40):
                ms_ = [hx.member(s_, tf_) for s_, tf_ in zip(c["specs"], c["tfs"])]
                if len({m_.name for m_ in ms_}) == len(ms_):
                    h_ = hx.hexital(c["rows"], ms_, c.get("hcfg"))
                    h_.calculate()
                    for m_, s_ in zip(ms_, c["specs"]):
                        if m_.timeframe is None:
                            nms = names_of(s_, m_) + (["gappy"] if any("gappy" in r_["inds"] for r_ in c["rows"]) else [])
                            ac.add(acccorr.case_term(h_, m_, nms, c["probe"][:2]), {"specs": c["specs"], "tfs": c["tfs"], "n": len(c["rows"])})
                            break
        except Exception:  # noqa
            pass
        for s in c["specs"]:
            dist[s["kind"]] = dist.get(s["kind"], 0) + 1
        ctx.seen({"specs": c["specs"], "tfs": c["tfs"], "rows": c["rows"]}, len(c["rows"]) >= 3)
        if len(ctx.samples) < 3:
            ctx.sample({"specs": c["specs"], "tfs": c["tfs"], "n": len(c["rows"]), "after": c.get("after")})
    ac.run()
    ctx.coverage.update({"input_distribution": dist,
                         "nontrivial_rule": "Hexital over >= 3 candles with at least one member; every plain and dotted name probed"})
    return core.finish(ctx, proof)


def replay(ctx: core.Ctx, rep: Dict) -> int:
    failed = falsify(ctx, rep["replay"]["case"])
    print("REPRODUCED" if failed else "NOT-REPRODUCED")
    return 1 if failed else 0
