"""C01 - incremental appends give exactly the batch result (schedule independence)."""
from __future__ import annotations

from typing import Dict

from .. import coqrun as C
from .. import core, engprop as E
from .. import indicators as X


def cfg_key(cfg: Dict) -> str:
    return ("tf" if cfg.get("tf") else "base") + ("+fill" if cfg.get("fill") else "") + ("+ha" if cfg.get("ha") else "")


def falsify(ctx, case: Dict) -> bool:
    spec, cfg, rows, init, chunks = case["spec"], case["cfg"], case["rows"], case["init"], case["chunks"]
    bad = None
    inc_exc = bat_exc = None
    try:
        with core.time_limit(30):
            inc = X.build(spec, X.mk_rows(init), cfg)
            if case.get("precalc"):
                inc.calculate()
            for j, ch in enumerate(chunks):
                if case.get("rewrap") is not None and j == case["rewrap"]:
                    # a pre-loaded indicator: a fresh object of the same configuration takes over the
                    # candles calculated so far (readings and helper series are on them) and carries on
                    inc = X.build(spec, inc.candles, cfg)
                inc.append(X.mk_rows(ch))
            if not chunks:
                inc.calculate()
    except Exception as e:  # noqa
        inc_exc = type(e).__name__
    try:
        with core.time_limit(30):
            bat = X.build(spec, X.mk_rows(rows), cfg)
            bat.calculate()
    except Exception as e:  # noqa
        bat_exc = type(e).__name__
    if inc_exc or bat_exc:
        if inc_exc != bat_exc:
            bad = {"relation": "exception-on-one-side", "exc": inc_exc or bat_exc}
        # both raise the same exception: totality is C09's subject
    else:
        d = E.same_snapshot(E.snapshot(inc), E.snapshot(bat))
        if d is not None:
            bad = {"relation": "incremental-differs-from-batch", "what": d[1]}
    if bad:
        sig = {"kind": spec["kind"], **bad, "cfg": cfg_key(cfg)}
        if spec["kind"] == "AMORPH":
            sig["function"] = spec["analysis"]["f"]
        if case.get("rewrap") is not None:
            sig["rewrapped"] = True
        ctx.fail(sig, f"{spec} cfg={cfg} n={len(rows)} init={len(init)} chunks={[len(c) for c in chunks][:12]} rewrap={case.get('rewrap')}: {bad}",
                 {"case": case}, size=len(rows))
        return True
    return False


def run(ctx: core.Ctx) -> int:
    proof = C.check_props("C01")
    ctx.proof_broken.extend(proof["broken"])
    rng = ctx.rng("cases")
    corr = E.Corr(ctx, "C01")
    dist: Dict[str, int] = {}
    cases = [c["case"] for c in E.load_corpus("C01")]
    n_corpus = len(cases)
    for _ in range(ctx.n(330, 4000)):
        c = E.gen_case(rng, ctx, X.KINDS + ["AMORPH"] * 3)
        c["precalc"] = rng.random() < 0.4
        if not c["cfg"] and len(c["chunks"]) >= 2 and rng.random() < 0.3:
            c["rewrap"] = rng.randrange(1, len(c["chunks"]))
        cases.append(c)
    for _ in range(ctx.n(40, 400)):
        c = E.gen_pattern_tf_case(rng, ctx)
        c["precalc"] = rng.random() < 0.4
        cases.append(c)
    for k in range(ctx.n(24, 240)):
        c = E.gen_pattern_base_case(rng, ctx, k)
        c["precalc"] = rng.random() < 0.4
        cases.append(c)
    for k in range(ctx.n(18, 180)):
        c = E.gen_cross_base_case(rng, ctx, k)
        c["precalc"] = False
        cases.append(c)
    for i, c in enumerate(cases):
        ctx.count("eval_falsifier")
        falsify(ctx, c)
        ops = ([("calculate",)] if c.get("precalc") else []) + [("append", ch) for ch in c["chunks"]]
        if not c["chunks"]:
            ops.append(("calculate",))
        corr.add(c["spec"], c["cfg"], c["init"], ops, rng, c.get("meta"))
        if i % 3 == 0:
            corr.add(c["spec"], c["cfg"], c["rows"], [("calculate",)], rng, c.get("meta"))
        if "meta" in c:
            E.record_distribution(ctx, dist, c)
        if c.get("rewrap") is not None:
            dist["rewrapped"] = dist.get("rewrapped", 0) + 1
        ctx.seen({"spec": c["spec"], "cfg": c["cfg"], "rows": c["rows"], "init": len(c["init"])},
                 len(c["rows"]) >= 4 and len(c["chunks"]) >= 1)
        if len(ctx.samples) < 3 and len(c["rows"]) > 6:
            ctx.sample({"spec": c["spec"], "cfg": c["cfg"], "n": len(c["rows"]), "init": len(c["init"]),
                        "chunk_sizes": [len(x) for x in c["chunks"]][:10], "first_row": c["rows"][0]})
    corr.run()
    ctx.coverage.update({"input_distribution": dist, "corpus_cases": n_corpus,
                         "nontrivial_rule": "stream of >= 4 candles fed through at least one append"})
    return core.finish(ctx, proof)


def replay(ctx: core.Ctx, rep: Dict) -> int:
    failed = falsify(ctx, rep["replay"]["case"])
    print("REPRODUCED" if failed else "NOT-REPRODUCED")
    return 1 if failed else 0
