"""C09 - calculation is total: no exception, only finite numbers, no gaps after warm-up."""
from __future__ import annotations

import math
from typing import Dict, List

from .. import coqrun as C
from .. import core, engprop as E, gen
from .. import indicators as X
from .C01 import cfg_key

DEGENERATE = ["flat", "flat", "up", "down", "eqclose", "tiny", "zero_vol", "mixed", "walk", "micro", "micro"]


def fields(kind: str, reading) -> Dict[str, object]:
    """Output fields of a top-level reading; Supertrend's long/short alternate by design."""
    if isinstance(reading, dict):
        d = dict(reading)
        if kind == "SUPERTREND":
            ls = d.pop("long", None), d.pop("short", None)
            d["long|short"] = ls[0] if ls[0] is not None else ls[1]
        return d
    return {"": reading}


def falsify(ctx, case: Dict) -> bool:
    spec, cfg, rows, init, chunks = case["spec"], case["cfg"], case["rows"], case["init"], case["chunks"]
    bad = None
    try:
        with core.time_limit(40):
            ind = X.build(spec, X.mk_rows(init), cfg)
            ind.calculate()
            for j, ch in enumerate(chunks):
                if case.get("rewrap") is not None and j == case["rewrap"]:
                    # a fresh object of the same configuration takes over the calculated candles
                    ind = X.build(spec, ind.candles, cfg)
                ind.append(X.mk_rows(ch))
    except Exception as e:  # noqa
        bad = {"relation": "raises", "exc": type(e).__name__}
        if case.get("rewrap") is not None:
            bad["rewrapped"] = True
    if bad is None:
        seen_field: Dict[str, int] = {}
        for i, c in enumerate(ind.candles):
            for dname, d in (("indicators", c.indicators), ("sub_indicators", c.sub_indicators)):
                for k, v in d.items():
                    for x in E.all_values(v):
                        ok = x is None or isinstance(x, bool) or (isinstance(x, (int, float)) and math.isfinite(x))
                        if not ok:
                            bad = {"relation": "non-finite-or-wrong-type", "where": dname}
            top = c.indicators.get(ind.name)
            for f, v in fields(spec["kind"], top).items():
                if v is not None:
                    seen_field.setdefault(f, i)
                elif f in seen_field and bad is None:
                    bad = {"relation": "gap-after-first-value", "field": f}
    if bad:
        sig = {"kind": spec["kind"], **bad}
        if "input_value" in spec["kw"]:
            sig["input"] = spec["kw"]["input_value"]
        if spec["kind"] == "AMORPH":
            sig["function"] = spec["analysis"]["f"]
        ctx.fail(sig, f"{spec} cfg={cfg} n={len(rows)} regime={case['meta'].get('regime')}: {bad}",
                 {"case": case}, size=len(rows))
        return True
    return False


def run(ctx: core.Ctx) -> int:
    proof = C.check_props("C09")
    ctx.proof_broken.extend(proof["broken"])
    rng = ctx.rng("cases")
    corr = E.Corr(ctx, "C09")
    dist: Dict[str, int] = {}
    cases = [c["case"] for c in E.load_corpus("C09")]
    n_corpus = len(cases)
    kinds = [k for k in X.KINDS if k != "AMORPH"]
    for _ in range(ctx.n(420, 5000)):
        regime = rng.choice(DEGENERATE)
        c = E.gen_case(rng, ctx, kinds, allow_ha=False, regimes=[regime], inputs_base=("close", "close", "high", "volume", "src", "dd.x"))
        c["meta"]["regime"] = regime
        if not c["cfg"] and len(c["chunks"]) >= 2 and rng.random() < 0.25:
            c["rewrap"] = rng.randrange(1, len(c["chunks"]))
        cases.append(c)
    for i, c in enumerate(cases):
        ctx.count("eval_falsifier")
        falsify(ctx, c)
        ops = [("calculate",)] + [("append", ch) for ch in c["chunks"]]
        corr.add(c["spec"], c["cfg"], c["init"], ops, rng, c.get("meta"))
        if "meta" in c:
            E.record_distribution(ctx, dist, c)
            dist["regime=" + str(c["meta"].get("regime"))] = dist.get("regime=" + str(c["meta"].get("regime")), 0) + 1
        ctx.seen({"spec": c["spec"], "cfg": c["cfg"], "rows": c["rows"]}, len(c["rows"]) >= 4)
        if len(ctx.samples) < 3 and len(c["rows"]) > 6:
            ctx.sample({"spec": c["spec"], "cfg": c["cfg"], "n": len(c["rows"]), "regime": c["meta"].get("regime"),
                        "first_rows": c["rows"][:2]})
    corr.run()
    ctx.coverage.update({"input_distribution": dist, "corpus_cases": n_corpus,
                         "nontrivial_rule": "stream of >= 4 candles from a degenerate regime (flat, monotone, equal closes, tiny moves, zero volume, fill candles)"})
    return core.finish(ctx, proof)


def replay(ctx: core.Ctx, rep: Dict) -> int:
    failed = falsify(ctx, rep["replay"]["case"])
    print("REPRODUCED" if failed else "NOT-REPRODUCED")
    return 1 if failed else 0
