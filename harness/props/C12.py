"""C12 - gap filling yields a contiguous series of flat, zero-volume candles."""
from __future__ import annotations

from typing import Dict

from .. import core, gen, hx, impl, mgrcorr, mgrprop
from .. import indicators as X
from .C03 import expected


def cfg_fn(rng, rows, meta):
    tf, tfs = mgrprop.bounded_tf(rng, rows, meta) if rows else ("T5", 300)
    return {"tf": tf, "fill": True, "ha": rng.random() < 0.2}


def falsify(ctx, cfg, rows, init, ops, meta) -> bool:
    tfs = mgrcorr.tf_seconds(cfg["tf"])
    bad = None
    states, err = impl.run_manager(cfg, init, ops)
    if err is not None:
        bad = {"relation": "exception", "exc": err}
    # batch twin: the whole stream at construction
    bstates, berr = impl.run_manager(cfg, rows, [])
    if bad is None and berr is not None:
        bad = {"relation": "exception", "exc": berr}
    if bad is None:
        last = states[-1]
        real = {e[0]: e for e in expected(rows, tfs)}
        for a, b in zip(last, last[1:]):
            if b["ts"] - a["ts"] != tfs:
                bad = {"relation": "not-contiguous"}
                break
        if bad is None and not cfg.get("ha"):
            prev = None
            for s in last:
                row = (s["ts"],) + tuple(s["ohlcv"])
                if s["ts"] in real:
                    if row != real[s["ts"]]:
                        bad = {"relation": "real-bucket-differs-from-unfilled"}
                        break
                elif prev is None:
                    bad = {"relation": "first-candle-is-not-a-real-bucket"}
                    break
                else:
                    pc = prev["ohlcv"][3]
                    if tuple(s["ohlcv"]) != (pc, pc, pc, pc, 0):
                        bad = {"relation": "fill-candle-not-flat"}
                        break
                prev = s
            if bad is None and set(real) - {s["ts"] for s in last}:
                bad = {"relation": "real-bucket-missing"}
        if bad is None:
            a = [(s["ts"], s["ohlcv"], s["clean"], bool(s["tag"])) for s in last]
            b = [(s["ts"], s["ohlcv"], s["clean"], bool(s["tag"])) for s in bstates[-1]]
            if a != b:
                bad = {"relation": "schedule-dependent", "ha": bool(cfg.get("ha"))}
    if bad is None and len(rows) % 3 == 0:
        # the same stream through a Hexital without a timeframe of its own whose member asks for this
        # one: the Hexital's timeframe_fill flag governs the member's manager, which must hold the
        # same contiguous series
        try:
            with core.time_limit(30):
                spec = {"kind": "SMA", "kw": {"period": 3, "input_value": "close"}, "round_value": 4}
                h = hx.hexital([{**r, "inds": {}} for r in init], [hx.member(spec, cfg["tf"])],
                               {"fill": True, "ha": cfg.get("ha")})
                for op in ops:
                    if op[0] == "append":
                        h.append(X.mk_rows([{**r, "inds": {}} for r in op[1]]))
                (name, cs), = [(k, v) for k, v in h.get_candles().items() if k != "default"]
                got = [(gen.to_ts(c.timestamp), impl.snap_ohlcv(c)) for c in cs]
                if got != [(s["ts"], tuple(s["ohlcv"])) for s in states[-1]]:
                    bad = {"relation": "hexital-member-timeframe-differs-from-manager", "ha": bool(cfg.get("ha"))}
        except Exception as e:  # noqa
            bad = {"relation": "hexital-exception", "exc": type(e).__name__}
    if bad:
        sig = {"kind": "fill", **bad}
        ctx.fail(sig, f"gap filling: {bad} tf={cfg['tf']} ha={cfg.get('ha')} n={len(rows)} init={len(init)}",
                 {"cfg": cfg, "init": init, "ops": ops}, size=len(rows))
        return True
    return False


def run(ctx: core.Ctx) -> int:
    return mgrprop.run_property(
        ctx, "C12", cfg_fn, falsify, 200, 2500,
        nontrivial=lambda cfg, rows, states: bool(states) and len(states[-1]) > 1 and len(rows) >= 4,
        nontrivial_rule="stream of >= 4 candles collapsing to at least two candles")


def replay(ctx: core.Ctx, rep: Dict) -> int:
    r = rep["replay"]
    ops = [tuple(o) for o in r["ops"]]
    rows = r["init"] + [x for o in ops if o[0] == "append" for x in o[1]]
    failed = falsify(ctx, r["cfg"], rows, r["init"], ops, {})
    print("REPRODUCED" if failed else "NOT-REPRODUCED")
    return 1 if failed else 0
