"""C17 - movement, candle-shape and pattern predicates mean what they document."""
from __future__ import annotations

import copy
from typing import Dict, List

from .. import analysis as A
from .. import coqrun as C
from .. import core, engprop as E, gen

from hexital.analysis import movement, patterns  # noqa: E402


def col(rows, nm):
    if nm in ("open", "high", "low", "close", "volume"):
        return [r[nm] for r in rows]
    if "." in nm:
        # a dotted name reads one part of a dict-valued reading; a dict without that part has no reading there
        main, part = nm.split(".")
        vals = [r.get("inds", {}).get(main) for r in rows]
        return [v.get(part) if isinstance(v, dict) else v for v in vals]
    return [r.get("inds", {}).get(nm) for r in rows]


def win(x, i, L, incl):
    """current (if incl) and the L candles before it, missing readings ignored"""
    lo = max(0, i - L)
    return [v for v in x[lo:i + (1 if incl else 0)] if v is not None]


def bar(a, i, L, hi):
    """offset of the most recent extreme among the L candles ending at i"""
    best, off = None, 0
    for k in range(L):
        j = i - k
        if j < 0:
            break
        if a[j] is None:
            continue
        if best is None or (a[j] > best if hi else a[j] < best):
            best, off = a[j], k
    return off


def ab(a, b, j):
    return j >= 0 and a[j] is not None and b[j] is not None and a[j] > b[j]


def be(a, b, j):
    return j >= 0 and a[j] is not None and b[j] is not None and a[j] < b[j]


def reference(spec: Dict, rows: List[Dict], i: int):
    f = spec["f"]
    if f in A.MOVEMENT2:
        a, b = col(rows, spec["a"]), col(rows, spec["b"])
        return ab(a, b, i) if f == "above" else be(a, b, i)
    if f in A.CROSS:
        a, b, L = col(rows, spec["a"]), col(rows, spec["b"]), spec["length"]
        js = [j for j in range(i, max(i - L, 0), -1)]
        if f == "crossover":
            return any(ab(a, b, j) and be(a, b, j - 1) for j in js)
        if f == "crossunder":
            return any(be(a, b, j) and ab(a, b, j - 1) for j in js)
        return any(all(x[k] is not None for x in (a, b) for k in (j, j - 1)) and
                   ((b[j] < a[j] and a[j - 1] <= b[j - 1]) or (b[j] > a[j] and a[j - 1] >= b[j - 1])) for j in js)
    a, L = col(rows, spec["name"]), spec["length"]
    if f == "rising":
        w = win(a, i, L, False)
        return L >= 1 and a[i] is not None and len(w) > 0 and all(v < a[i] for v in w)
    if f == "falling":
        w = win(a, i, L, False)
        return L >= 1 and a[i] is not None and len(w) > 0 and all(v > a[i] for v in w)
    if f == "mean_rising":
        w = win(a, i, L, False)
        return L >= 1 and a[i] is not None and len(w) > 0 and sum(w) / len(w) < a[i]
    if f == "mean_falling":
        w = win(a, i, L, False)
        return L >= 1 and a[i] is not None and len(w) > 0 and sum(w) / len(w) > a[i]
    if f == "highest":
        w = win(a, i, L, True)
        return (max(w) if w else None) if L >= 1 else False
    if f == "lowest":
        w = win(a, i, L, True)
        return (min(w) if w else None) if L >= 1 else False
    if f == "value_range":
        w = win(a, i, L, True)
        return abs(min(w) - max(w)) if L >= 2 and len(w) >= 2 else None
    if f == "highestbar":
        return bar(a, i, L, True)
    if f == "lowestbar":
        return bar(a, i, L, False)
    raise KeyError(f)


def falsify_movement(ctx, rows, spec, i) -> bool:
    got = A.outcome(spec, A.mk(rows), i)
    want = ("ok", reference(spec, rows, i))
    if got != want:
        ctx.fail({"kind": "movement", "function": spec["f"], "relation": "differs-from-documented-meaning",
                  "exc": got[1] if got[0] == "exc" else None},
                 f"{spec} at index {i} of {len(rows)}: got {got} want {want}",
                 {"mode": "movement", "rows": rows, "spec": spec, "index": i}, size=len(rows))
        return True
    return False


def falsify_geometry(ctx, row: Dict) -> bool:
    c = A.mk([row])[0]
    o, h, l, cl = row["open"], row["high"], row["low"], row["close"]
    tol = 1e-9 * max(1.0, abs(h))
    ok = (abs(c.realbody - abs(o - cl)) <= tol and abs(c.shadow_upper - (h - max(o, cl))) <= tol and
          abs(c.shadow_lower - (min(o, cl) - l)) <= tol and abs(c.high_low - (h - l)) <= tol and
          c.positive == (cl > o) and c.negative == (cl < o) and
          movement.positive([c]) == (cl > o) and movement.negative([c]) == (cl < o))
    if not ok:
        ctx.fail({"kind": "geometry", "relation": "candle-shape-property"}, f"candle {row}", {"mode": "geometry", "row": row})
        return True
    return False


def transform(rows, k=1.0, d=0.0):
    out = copy.deepcopy(rows)
    for r in out:
        for f in ("open", "high", "low", "close"):
            r[f] = r[f] * k + d
    return out


def falsify_pattern(ctx, rows: List[Dict], i: int, kind: str, breaker) -> bool:
    """Witness with >= 2x margins is recognised; one clearly violated clause is not; the
    verdicts survive scaling by a positive factor and shifting by a constant."""
    f = A.PY[kind]
    bad = None
    cs = A.mk(rows)
    if f(cs, index=i) is not True:
        bad = {"relation": "witness-not-recognised"}
    else:
        for k, d in ((2.0, 0.0), (0.5, 0.0), (8.0, 0.0), (1.0, 64.0), (1.0, 1024.0), (4.0, 256.0)):
            if f(A.mk(transform(rows, k, d)), index=i) is not True:
                bad = {"relation": "not-scale-or-shift-invariant", "scale": k != 1.0, "shift": d != 0.0}
                break
        if bad is None and breaker is not None:
            broken = copy.deepcopy(rows)
            which = breaker(broken, i)
            if which and f(A.mk(broken), index=i) is not False:
                bad = {"relation": "recognised-although-a-clause-is-violated", "clause": which}
    if bad:
        ctx.fail({"kind": "pattern", "function": kind, **bad}, f"{kind} at {i} of {len(rows)}: {bad}",
                 {"mode": "pattern", "rows": rows, "index": i, "pattern": kind}, size=len(rows))
        return True
    return False


def breakers(kind: str, rng):
    """Functions that clearly violate exactly one clause of the documented shape."""
    def doji_body(rows, i):
        r = rows[i]
        hl = sum(abs(x["high"] - x["low"]) for x in rows[i - 9:i + 1]) / 10
        r["close"] = r["open"] + hl        # body ten times the allowed size
        r["high"] = max(r["high"], r["close"])
        return "body-short"

    def hammer_upper(rows, i):
        r = rows[i]
        hl = sum(abs(x["high"] - x["low"]) for x in rows[i - 9:i + 1]) / 10
        r["high"] = max(r["open"], r["close"]) + 2 * hl     # a long upper shadow
        return "upper-shadow-very-short"

    def hammer_lower(rows, i):
        r = rows[i]
        r["low"] = min(r["open"], r["close"])               # no lower shadow at all
        return "lower-shadow-long"

    def inv_upper(rows, i):
        r = rows[i]
        r["high"] = max(r["open"], r["close"])              # no upper shadow
        return "upper-shadow-long"

    def inv_gap(rows, i):
        r, p = rows[i], rows[i - 1]
        top = max(p["open"], p["close"])
        shift = top + 1.0 - min(r["open"], r["close"])      # body now above the previous body: no gap down
        for f in ("open", "high", "low", "close"):
            r[f] += shift
        return "gap-down"

    def star_gap(rows, i):
        r, p = rows[i], rows[i - 1]
        mid = (p["open"] + p["close"]) / 2                  # doji inside the previous body: no gap
        r.update(open=mid, close=mid, high=mid + 0.01, low=mid - 0.01)
        return "gap"

    def star_prev(rows, i):
        p = rows[i - 1]
        p["close"] = p["open"]                              # previous candle no longer long (and not positive)
        return "previous-body-long"

    return {"doji": [doji_body], "hammer": [hammer_upper, hammer_lower], "inverted_hammer": [inv_upper, inv_gap],
            "dojistar": [star_gap, star_prev]}[kind]


def run(ctx: core.Ctx) -> int:
    proof = C.check_props("C17")
    ctx.proof_broken.extend(proof["broken"])
    rng = ctx.rng("cases")
    dist: Dict[str, int] = {}
    terms, metas = [], []
    for k in range(ctx.n(80, 800)):
        n = rng.choice([2, 3, 5, 8, 12, 20, 30])
        rows = A.gen_candles(rng, n, rng.choice(["missing", "missing", "clean"]))
        probes = []
        for _ in range(12):
            spec = A.gen_spec(rng, rng.choice(A.MOVEMENT2 + A.MOVEMENT_L + A.CROSS))
            i = rng.randrange(1, n)
            ctx.count("eval_falsifier")
            falsify_movement(ctx, rows, spec, i)
            dist[spec["f"]] = dist.get(spec["f"], 0) + 1
            probes.append((spec, i, A.outcome(spec, A.mk(rows), i)))
            ctx.count("eval_correspondence")
            ctx.seen({"rows": rows, "spec": spec, "i": i}, n >= 3)
        terms.append(A.case_term(rows, probes))
        metas.append((rows, probes))
        if k < 2:
            ctx.sample({"n": n, "first": rows[0], "probes": [[p[0], p[1], list(p[2])] for p in probes[:2]]})
    for _ in range(ctx.n(300, 3000)):
        row = gen.gen_prices(rng, 1, rng.choice(gen.REGIMES))[0]
        row["ts"] = 0
        ctx.count("eval_falsifier")
        falsify_geometry(ctx, row)
    planted = 0
    for _ in range(ctx.n(160, 1600)):
        n = rng.randint(12, 30)
        rows = A.gen_candles(rng, n, "clean")
        # dyadic prices keep scaling by powers of two and shifting by integers exact
        for r in rows:
            for f in ("open", "high", "low", "close"):
                r[f] = round(r[f] * 64) / 64
            r["low"], r["high"] = min(r["low"], r["open"], r["close"]), max(r["high"], r["open"], r["close"])
        kind = rng.choice(A.PATTERNS)
        i = rng.randrange(10, n)
        if not A.plant(rows, i, kind, margin=2.0):
            continue
        planted += 1
        ctx.count("eval_falsifier")
        falsify_pattern(ctx, rows, i, kind, rng.choice(breakers(kind, rng)))
        dist["pattern=" + kind] = dist.get("pattern=" + kind, 0) + 1
        ctx.seen({"rows": rows, "kind": kind, "i": i}, True)
        probes = [({"f": kind, "lookback": None}, i, A.outcome({"f": kind, "lookback": None}, A.mk(rows), i))]
        terms.append(A.case_term(rows, probes))
        metas.append((rows, probes))
    bad, errs = C.run_shards("C17", "afun", terms, A.CASE_TYPE, A.CHECKER)
    for e in errs:
        ctx.corr_disagreements.append({"relation": "check_afun failed to evaluate", "log": e})
    for b in bad:
        rows, probes = metas[b]
        ctx.corr_disagreements.append({"relation": "check_afun: model of hexital.analysis.* != implementation result",
                                       "rows": rows, "probes": [[p[0], p[1], list(p[2])] for p in probes]})
    ctx.coverage.update({"input_distribution": dist, "planted_pattern_witnesses": planted,
                         "correspondence_cases": len(terms), "correspondence_disagreements": len(bad) + len(errs),
                         "nontrivial_rule": "candle list of >= 3 candles probed at an index >= 1, or a planted pattern witness"})
    return core.finish(ctx, proof)


def replay(ctx: core.Ctx, rep: Dict) -> int:
    r = rep["replay"]
    if r["mode"] == "movement":
        failed = falsify_movement(ctx, r["rows"], r["spec"], r["index"])
    elif r["mode"] == "geometry":
        failed = falsify_geometry(ctx, r["row"])
    else:
        failed = falsify_pattern(ctx, r["rows"], r["index"], r["pattern"], None)
    print("REPRODUCED" if failed else "NOT-REPRODUCED")
    return 1 if failed else 0
