"""C15 - lifespan trimming keeps exactly the window and leaves its readings unchanged."""
from __future__ import annotations

from typing import Dict

from .. import core, impl, mgrcorr, mgrprop


def cfg_fn(rng, rows, meta):
    span = (rows[-1]["ts"] - rows[0]["ts"]) if rows else 100
    lifespan = rng.choice([0, 1, meta["step"], meta["step"] * rng.randint(2, 12), max(1, span // 3), span, span * 2])
    if rng.random() < 0.4 or not rows:
        return {"tf": None, "lifespan": lifespan}
    tf, tfs = mgrprop.bounded_tf(rng, rows, meta)
    return {"tf": tf, "fill": rng.random() < 0.3, "lifespan": max(lifespan, rng.choice([0, tfs, 3 * tfs]))}


def falsify(ctx, cfg, rows, init, ops, meta) -> bool:
    states, err = impl.run_manager(cfg, init, ops)
    twin, terr = impl.run_manager({**cfg, "lifespan": None}, init, ops)
    bad = None
    if err is not None or terr is not None:
        bad = {"relation": "exception", "exc": err or terr}
    else:
        for st, tw, op in zip(states, twin, [("init",)] + ops):
            if not tw:
                continue
            newest = tw[-1]["ts"]
            want = [(s["ts"], s["ohlcv"]) for s in tw if s["ts"] >= newest - cfg["lifespan"]]
            got = [(s["ts"], s["ohlcv"]) for s in st]
            if got != want:
                rel = "window" if [g[0] for g in got] != [w[0] for w in want] else "values-of-retained-candles"
                bad = {"relation": rel}
                break
    if bad:
        ctx.fail({"kind": "trim", **bad},
                 f"lifespan trimming: {bad} cfg={cfg} n={len(rows)} init={len(init)}",
                 {"cfg": cfg, "init": init, "ops": ops}, size=len(rows))
        return True
    return False


# ---- clause 2: readings on the retained candles equal those of an untrimmed run ----
# indicators that, once seeded, compute the next reading from the previous candle only
RECURSIVE = {"EMA", "RMA", "ATR", "RSI", "OBV", "VWAP", "MACD", "TSI", "ADX", "SUPERTREND", "KC"}


def lookback_candles(spec: Dict) -> int:
    """How many candles before the new one the indicator may look at (over-estimated)."""
    kw = spec["kw"]
    k = spec["kind"]
    p = kw.get("period", 2)
    if k == "MACD":
        return max(kw["slow_period"], kw["fast_period"]) + kw["signal_period"] + 4     # the constructor reorders reversed periods
    if k == "STOCH":
        return p + kw["slow_period"] + kw["smoothing_k"] + 4
    if k == "TSI":
        return p + (kw.get("smooth_period") or p) + 4
    if k == "ADX":
        return p + (kw.get("period_signal") or p) + 4
    if k == "HMA":
        return 2 * p + 4
    if k == "AMORPH":
        a = spec["analysis"]
        return max(a.get("length", 1), a.get("lookback") or 1, 12) + 4
    return p + 4


def falsify_readings(ctx, case: Dict) -> bool:
    from .. import engprop as E
    from .. import indicators as X
    spec, rows, init, chunks, cfg = case["spec"], case["rows"], case["init"], case["chunks"], case["cfg"]
    bad = None
    # the clause is about runs in which every new candle still has its look-back inside the window
    if len(rows) > 1:
        step = min(b["ts"] - a["ts"] for a, b in zip(rows, rows[1:]))
        if step > 0 and cfg["lifespan"] < lookback_candles(spec) * step:
            return False
    try:
        with core.time_limit(40):
            trimmed = X.build(spec, X.mk_rows(init), cfg)
            trimmed.calculate()
            twin = X.build(spec, X.mk_rows(init), {k: v for k, v in cfg.items() if k != "lifespan"})
            twin.calculate()
            for ch in chunks:
                trimmed.append(X.mk_rows(ch))
                twin.append(X.mk_rows(ch))
                a, b = E.snapshot(trimmed), E.snapshot(twin)
                if E.same_snapshot(a, b[len(b) - len(a):]) is not None:
                    d = E.same_snapshot(a, b[len(b) - len(a):])
                    bad = {"relation": "readings-differ-from-untrimmed-run", "what": d[1]}
                    break
    except Exception as e:  # noqa
        bad = {"relation": "raises", "exc": type(e).__name__}
    if bad:
        ctx.fail({"kind": spec["kind"], **bad}, f"{spec} cfg={cfg} n={len(rows)} init={len(init)}: {bad}",
                 {"mode": "readings", "case": case}, size=len(rows))
        return True
    return False


def run_readings(ctx: core.Ctx):
    """Every kind, single-candle appends from a warm start, lifespan that always keeps the look-back."""
    from .. import engprop as E
    from .. import indicators as X
    rng = ctx.rng("readings")
    corr = E.Corr(ctx, "C15")
    dist: Dict[str, int] = {}
    for _ in range(ctx.n(150, 1800)):
        kind = rng.choice(X.KINDS)
        spec = X.gen_spec(rng, kind, ctx.thorough, inputs=("close", "high"))
        if spec["kind"] == "COUNTER":
            spec["kw"]["input_value"] = "positive"
        if spec["kind"] == "AMORPH":
            a = spec["analysis"]
            for key in ("a", "b", "name"):
                if a.get(key) in ("a", "b"):
                    a[key] = "close" if key != "b" else "open"
        step = rng.choice([60, 300])
        w = lookback_candles(spec) + rng.randint(2, 12)
        n = w + rng.randint(5, 60)
        rows = X.gen_rows(rng, n, late=0, step=step)
        for r in rows:
            r["inds"] = {}
        k = rng.randint(0, w)                # nothing is trimmed before it was calculated: each reading is
                                             # computed while its whole look-back is still retained
        cfg = {"lifespan": w * step}
        sparse = 0
        if kind in RECURSIVE and rng.random() < 0.5:
            # purely recursive once seeded: one predecessor is all the look-back.  After a dense warm-up
            # the stream thins out, so that the window holds only two or three candles.
            dense = 2 * w + rng.randint(4, 12)
            sparse = rng.randint(4, 25)
            rows = X.gen_rows(rng, dense + sparse, late=0, step=step)
            gap = (w * step) // 2
            for j in range(dense, dense + sparse):
                rows[j]["ts"] = rows[j - 1]["ts"] + gap
            for r in rows:
                r["inds"] = {}
            k = rng.randint(0, w)
        chunks = [[r] for r in rows[k:]]
        c = {"spec": spec, "rows": rows, "init": rows[:k], "chunks": chunks, "cfg": cfg, "sparse": sparse}
        ctx.count("eval_falsifier")
        falsify_readings(ctx, c)
        corr.add(spec, cfg, rows[:k], [("calculate",)] + [("append", ch) for ch in chunks[:w + 6]], rng, {"kind": kind})
        dist["readings:" + kind] = dist.get("readings:" + kind, 0) + 1
        ctx.seen({"spec": spec, "cfg": cfg, "rows": rows, "init": k}, True)
    corr.run()
    ctx.coverage["readings_distribution"] = dist


def run(ctx: core.Ctx) -> int:
    run_readings(ctx)
    return mgrprop.run_property(
        ctx, "C15", cfg_fn, falsify, 220, 2500,
        nontrivial=lambda cfg, rows, states: bool(states) and len(rows) >= 4 and 0 < len(states[-1]),
        nontrivial_rule="stream of >= 4 candles with a non-empty retained window", collapse_ops=False)


def replay(ctx: core.Ctx, rep: Dict) -> int:
    r = rep["replay"]
    if r.get("mode") == "readings":
        failed = falsify_readings(ctx, r["case"])
        print("REPRODUCED" if failed else "NOT-REPRODUCED")
        return 1 if failed else 0
    ops = [tuple(o) for o in r["ops"]]
    rows = r["init"] + [x for o in ops if o[0] == "append" for x in o[1]]
    failed = falsify(ctx, r["cfg"], rows, r["init"], ops, {})
    print("REPRODUCED" if failed else "NOT-REPRODUCED")
    return 1 if failed else 0
