"""C15 - lifespan trimming keeps exactly the window and leaves its readings unchanged."""
from __future__ import annotations

from typing import Dict

from .. import core, impl, mgrcorr, mgrprop


def cfg_fn(rng, rows, meta):
    span = (rows[-1]["ts"] - rows[0]["ts"]) if rows else 100
    lifespan = rng.choice([0, 1, meta["step"], meta["step"] * rng.randint(2, 12), max(1, span // 3), span, span * 2])
    if rng.random() < 0.4 or not rows:
        return {"tf": None, "lifespan": lifespan}
    tf, tfs = mgrprop.bounded_tf(rng, rows, meta)
    return {"tf": tf, "fill": rng.random() < 0.3, "lifespan": max(lifespan, rng.choice([0, tfs, 3 * tfs]))}


def falsify(ctx, cfg, rows, init, ops, meta) -> bool:
    states, err = impl.run_manager(cfg, init, ops)
    twin, terr = impl.run_manager({**cfg, "lifespan": None}, init, ops)
    bad = None
    if err is not None or terr is not None:
        bad = {"relation": "exception", "exc": err or terr}
    else:
        for st, tw, op in zip(states, twin, [("init",)] + ops):
            if not tw:
                continue
            newest = tw[-1]["ts"]
            want = [(s["ts"], s["ohlcv"]) for s in tw if s["ts"] >= newest - cfg["lifespan"]]
            got = [(s["ts"], s["ohlcv"]) for s in st]
            if got != want:
                rel = "window" if [g[0] for g in got] != [w[0] for w in want] else "values-of-retained-candles"
                bad = {"relation": rel}
                break
    if bad:
        ctx.fail({"kind": "trim", **bad},
                 f"lifespan trimming: {bad} cfg={cfg} n={len(rows)} init={len(init)}",
                 {"cfg": cfg, "init": init, "ops": ops}, size=len(rows))
        return True
    return False


def run(ctx: core.Ctx) -> int:
    return mgrprop.run_property(
        ctx, "C15", cfg_fn, falsify, 220, 2500,
        nontrivial=lambda cfg, rows, states: bool(states) and len(rows) >= 4 and 0 < len(states[-1]),
        nontrivial_rule="stream of >= 4 candles with a non-empty retained window", collapse_ops=False)


def replay(ctx: core.Ctx, rep: Dict) -> int:
    r = rep["replay"]
    ops = [tuple(o) for o in r["ops"]]
    rows = r["init"] + [x for o in ops if o[0] == "append" for x in o[1]]
    failed = falsify(ctx, r["cfg"], rows, r["init"], ops, {})
    print("REPRODUCED" if failed else "NOT-REPRODUCED")
    return 1 if failed else 0
