"""Correspondence of the read-accessor model (Model/Access.v, Model/Readings.v: as_list, reading,
read_candle, reading_count, has_reading, Hexital.reading / prev_reading / has_reading) with the
implementation: the candles of a calculated Hexital are handed to Coq with the answers the
accessors gave, and `check_acc` re-computes every answer on the model."""
from __future__ import annotations

from typing import Dict, List, Optional, Tuple

from . import analysis as A
from . import coqrun as C
from . import core, gen
from .mgrcorr import EXN_CODES

CASE_TYPE = "acc_case POW"
CHECKER = "check_acc POW"


def store_term(cs) -> str:
    rows = [{"ts": gen.to_ts(c.timestamp) if c.timestamp is not None else 0, "open": c.open, "high": c.high, "low": c.low,
             "close": c.close, "volume": c.volume, "inds": c.indicators, "subs": c.sub_indicators} for c in cs]
    return C.listlit(rows, A.candle_term)


def outcome(fn) -> str:
    try:
        v = fn()
    except Exception as e:  # noqa
        return "(inr %s)" % C.zlit(EXN_CODES.get(type(e).__name__, 99))
    vs = v if isinstance(v, list) else [v]
    return "(inl %s)" % C.listlit(vs, C.vallit)


def case_term(h, m, names: List[str], probes: List[int]) -> Optional[str]:
    """Accessor probes on member m (which must sit on the default manager) of Hexital h."""
    if m.timeframe is not None:
        return None
    default = h.candles()
    others = [cs for k, cs in h.get_candles().items() if k != "default"]
    n = len(default)
    s = C.strlit
    pr: List[str] = []
    for nm in names:
        pr.append("(AAsList %s, %s)" % (s(nm), outcome(lambda: m.as_list(nm))))
        pr.append("(ACount %s, %s)" % (s(nm), outcome(lambda: m.reading_count(nm))))
        pr.append("(HPrev %s, %s)" % (s(nm), outcome(lambda: h.prev_reading(nm))))
        pr.append("(HHas %s, %s)" % (s(nm), outcome(lambda: h.has_reading(nm))))
        for i in probes:
            for idx in ({i % n, i % n - n, -1} if n else {0, -1}):
                pr.append("(AReading %s %s, %s)" % (s(nm), C.zlit(idx), outcome(lambda: m.reading(nm, idx))))
                pr.append("(HReading %s %s, %s)" % (s(nm), C.zlit(idx), outcome(lambda: h.reading(nm, idx))))
                if n:
                    pr.append("(AReadCandle %s %s, %s)" % (C.zlit(idx), s(nm), outcome(lambda: m.read_candle(default[idx], nm))))
    pr.append("(AHas %s, %s)" % (s(m.name), outcome(lambda: m.has_reading)))
    return "(%s, %s, [%s])" % (store_term(default), "[" + "; ".join(store_term(o) for o in others) + "]", "; ".join(pr))


class AccCorr:
    def __init__(self, ctx: core.Ctx, prop: str):
        self.ctx, self.prop = ctx, prop
        self.terms: List[str] = []
        self.metas: List[Dict] = []

    def add(self, term: Optional[str], meta: Dict):
        if term is None:
            return
        self.terms.append(term)
        self.metas.append(meta)
        self.ctx.count("eval_accessor_correspondence")

    def run(self):
        if not self.terms:
            return
        bad, errs = C.run_shards(self.prop, "acc", self.terms, CASE_TYPE, CHECKER, extra_imports="Model.Access")
        for e in errs:
            self.ctx.corr_disagreements.append({"relation": "check_acc (Run/Check.v) failed to evaluate", "log": e})
        for i in bad[:6]:
            self.ctx.corr_disagreements.append({
                "relation": "check_acc: accessor model (Model/Access.v, Model/Readings.v) != implementation", **self.metas[i]})
        self.ctx.coverage.update({"accessor_correspondence_cases": len(self.terms),
                                  "accessor_correspondence_disagreements": len(bad) + len(errs)})
