"""Analysis functions (hexital.analysis.*): generators of candle lists with readings,
calling the implementation, and emitting Coq probes for the correspondence."""
from __future__ import annotations

from typing import Any, Dict, List, Optional, Tuple

from . import coqrun as C
from . import gen, impl
from .mgrcorr import EXN_CODES

from hexital.analysis import movement, patterns  # noqa: E402  (after impl set the import path)

MOVEMENT2 = ["above", "below"]                       # (a, b)
MOVEMENT_L = ["value_range", "rising", "falling", "mean_rising", "mean_falling",
              "highest", "lowest", "highestbar", "lowestbar"]   # (name, length)
CROSS = ["cross", "crossover", "crossunder"]         # (a, b, length)
PATTERNS = ["doji", "dojistar", "hammer", "inverted_hammer"]
PY = {**{n: getattr(movement, n) for n in ["positive", "negative"] + MOVEMENT2 + MOVEMENT_L + CROSS},
      **{n: getattr(patterns, n) for n in PATTERNS}}
COQ_NAME = {"positive": "A_positive", "negative": "A_negative", "above": "A_above", "below": "A_below",
            "value_range": "A_value_range", "rising": "A_rising", "falling": "A_falling",
            "mean_rising": "A_mean_rising", "mean_falling": "A_mean_falling", "highest": "A_highest",
            "lowest": "A_lowest", "highestbar": "A_highestbar", "lowestbar": "A_lowestbar", "cross": "A_cross",
            "crossover": "A_crossover", "crossunder": "A_crossunder", "doji": "A_doji", "dojistar": "A_dojistar",
            "hammer": "A_hammer", "inverted_hammer": "A_inv_hammer"}
ALL = list(COQ_NAME)


def gen_reading(rng, mode: str):
    """A reading value: numbers with ties, missing, and (in 'wild' mode) bools and dicts."""
    r = rng.random()
    if mode == "clean":
        return rng.choice([1, 2, 2, 3, 5, 8, 0, 0.0]) if r < 0.35 else round(rng.uniform(0, 10), 1)
    if r < 0.18:
        return None
    if r < 0.25:
        return "MISSING"
    if mode == "wild":
        if r < 0.30:
            return rng.choice([True, False])
        if r < 0.33:
            return {"x": 1.5, "y": None}
        if r < 0.36:
            return 0
    if r < 0.6:
        return rng.choice([1, 2, 2, 3, 5, 8, -1, 0, 0.0, 0])
    return round(rng.uniform(-5, 10), 1)


def gen_candles(rng, n: int, mode: str, names=("a", "b")) -> List[Dict]:
    rows = gen.gen_prices(rng, n, rng.choice(gen.REGIMES))
    for i, r in enumerate(rows):
        r["ts"] = 1_700_000_000 + 60 * i
        inds = {}
        for nm in names:
            v = gen_reading(rng, mode)
            if v != "MISSING":
                inds[nm] = v
        # a dict-valued reading for the dotted name "d.x": the part present, None, or absent from the dict
        q = rng.random()
        if mode == "clean":
            inds["d"] = {"x": gen_reading(rng, mode), "y": 1.0}
        elif q < 0.12:
            pass
        elif q < 0.22:
            inds["d"] = None
        elif q < 0.42:
            inds["d"] = {"y": 2.0}
        else:
            v = gen_reading(rng, "plain")
            inds["d"] = {"x": None if v == "MISSING" else v, "y": 1.0}
        r["inds"] = inds
    return rows


def mk(rows: List[Dict]):
    out = []
    for r in rows:
        c = impl.mk_candle(r)
        c.indicators = dict(r.get("inds", {}))
        c.sub_indicators = dict(r.get("subs", {}))
        out.append(c)
    return out


def gen_spec(rng, fname: Optional[str] = None) -> Dict:
    f = fname or rng.choice(ALL)
    src = rng.choice(["a", "b", "a", "close", "high", "low", "d.x"])
    spec: Dict[str, Any] = {"f": f}
    if f in MOVEMENT2:
        spec.update(a=rng.choice(["a", "close", "d.x"]), b=rng.choice(["b", "open", "a"]))
    elif f in MOVEMENT_L:
        spec.update(name=src, length=rng.choice([0, 1, 1, 2, 3, 4, 5, 7, 30]))
    elif f in CROSS:
        spec.update(a=rng.choice(["a", "close", "d.x"]), b=rng.choice(["b", "open"]), length=rng.choice([1, 1, 2, 3, 6, 30]))
    elif f in PATTERNS:
        spec.update(lookback=rng.choice([None, None, 1, 2, 5, 20]))
    return spec


def call(spec: Dict, candles, index: Optional[int]):
    """Call the implementation; index None = the function's own default."""
    f = PY[spec["f"]]
    kw = {} if index is None else {"index": index}
    n = spec["f"]
    if n in ("positive", "negative"):
        return f(candles, **kw)
    if n in MOVEMENT2:
        return f(candles, spec["a"], spec["b"], **kw)
    if n in MOVEMENT_L:
        return f(candles, spec["name"], spec["length"], **kw)
    if n in CROSS:
        return f(candles, spec["a"], spec["b"], spec["length"], **kw)
    return f(candles, spec["lookback"], **kw)


def kwargs_of(spec: Dict) -> Dict:
    n = spec["f"]
    if n in MOVEMENT2:
        return {"indicator": spec["a"], "indicator_two": spec["b"]}
    if n in MOVEMENT_L:
        return {"indicator": spec["name"], "length": spec["length"]}
    if n in CROSS:
        return {"indicator_one": spec["a"], "indicator_two": spec["b"], "length": spec["length"]}
    if n in PATTERNS:
        return {"lookback": spec["lookback"]} if spec["lookback"] is not None else {}
    return {}


def outcome(spec: Dict, candles, index: Optional[int]) -> Tuple[str, Any]:
    try:
        return ("ok", call(spec, candles, index))
    except Exception as e:  # noqa
        return ("exc", type(e).__name__)


# ---- Coq terms ----
def afun_term(spec: Dict) -> str:
    n = spec["f"]
    c = COQ_NAME[n]
    if n in ("positive", "negative"):
        return c
    if n in MOVEMENT2:
        return f"({c} {C.strlit(spec['a'])} {C.strlit(spec['b'])})"
    if n in MOVEMENT_L:
        return f"({c} {C.strlit(spec['name'])} {C.zlit(spec['length'])})"
    if n in CROSS:
        return f"({c} {C.strlit(spec['a'])} {C.strlit(spec['b'])} {C.zlit(spec['length'])})"
    return f"({c} {C.optlit(spec['lookback'], C.zlit)})"


def alist_term(d: Dict) -> str:
    return C.listlit(list(d.items()), lambda kv: f"({C.strlit(kv[0])}, {C.vallit(kv[1])})")


def candle_term(r: Dict) -> str:
    return "mkcr %s %s %s %s %s %s %s %s" % (
        C.zlit(r["ts"]), C.numlit(r["open"]), C.numlit(r["high"]), C.numlit(r["low"]), C.numlit(r["close"]),
        C.numlit(r["volume"]), alist_term(r.get("inds", {})), alist_term(r.get("subs", {})))


def outcome_term(o: Tuple[str, Any]) -> str:
    if o[0] == "ok":
        return f"(inl {C.vallit(o[1])})"
    return f"(inr {C.zlit(EXN_CODES.get(o[1], 99))})"


def case_term(rows: List[Dict], probes: List[Tuple[Dict, Optional[int], Tuple[str, Any]]]) -> str:
    return "(%s, %s)" % (C.listlit(rows, candle_term),
                         C.listlit(probes, lambda pr: f"({afun_term(pr[0])}, {C.optlit(pr[1], C.zlit)}, {outcome_term(pr[2])})"))


CASE_TYPE = "afun_case POW"
CHECKER = "check_afun POW"


# ---- planted pattern witnesses (random candles almost never form a hammer or doji star) ----
def plant(rows: List[Dict], i: int, kind: str, margin: float = 2.0, early: bool = False) -> bool:
    """Rewrite candle i (and for dojistar i-1) so that [kind] holds at i with a clear
    margin on every clause.  Needs i >= 10.  Returns False when it cannot be placed.
    With [early] the shape is also placed at an index 2..9 (against the averages of the candles
    there are): inside the warm-up the functions must answer False whatever the candle looks like."""
    if i < (2 if early else 10) or i >= len(rows):
        return False
    w9 = rows[max(0, i - 9):i]              # the nine candles before i; candle i itself is rewritten below
    hl = sum(abs(r["high"] - r["low"]) for r in w9) / 10
    body9 = sum(abs(r["open"] - r["close"]) for r in w9) / 9
    body = body9
    prev = rows[i - 1]
    if hl <= 0.05 or body9 <= 0.04:
        return False
    r = rows[i]
    if kind == "doji":
        o = prev["close"]
        r.update(open=o, close=o, high=round(o + hl / 2, 2), low=round(max(0.01, o - hl / 2), 2))
    elif kind == "hammer":
        b = round(min(body, hl) / (2 * margin), 2)
        if b < 0.01:
            return False
        o = round(max(0.05, prev["low"] - b), 2)
        c = round(o + b, 2)
        l = round(o - 3 * margin * b - hl, 2)
        if l <= 0:
            return False
        r.update(open=o, close=c, high=c, low=l)
    elif kind == "inverted_hammer":
        b = round(min(body, hl) / (2 * margin), 2)
        if b < 0.01:
            return False
        top = min(prev["open"], prev["close"])
        c = round(top - 2 * b, 2)
        o = round(c - b, 2)
        if o <= 0.02:
            return False
        r.update(open=o, close=c, high=round(c + 3 * margin * b + hl, 2), low=o)
    elif kind == "dojistar":
        # long positive previous candle, then a gap up doji
        # "long" is judged against the average body of the previous candle and the nine before it
        po = prev["open"]
        body = max(body, sum(abs(x["open"] - x["close"]) for x in rows[max(0, i - 10):i - 1]) / 9)
        pc = round(po + margin * 3 * body + 0.5, 2)
        prev.update(close=pc, high=max(prev["high"], pc), low=min(prev["low"], po))
        o = round(pc + 0.5, 2)
        r.update(open=o, close=o, high=round(o + 0.01, 2), low=round(o - 0.01, 2))
    else:
        return False
    for k in ("open", "high", "low", "close"):
        r[k] = float(r[k])
        prev[k] = float(prev[k])
    return True
