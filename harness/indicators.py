"""Registry of the shipped indicators: how to build each one in Python and the Coq [kind]
term of its model, random parameter choice, and the engine correspondence case builder."""
from __future__ import annotations

import copy
from datetime import timedelta
from typing import Any, Callable, Dict, List, Optional, Tuple

from . import analysis as A
from . import coqrun as C
from . import core, gen, impl, mgrcorr
from .mgrcorr import EXN_CODES

import hexital.indicators as I  # noqa: E402
from hexital.candlesticks.heikinashi import HeikinAshi  # noqa: E402

KINDS = ["SMA", "EMA", "RMA", "WMA", "VWMA", "HMA", "TR", "ATR", "STDEV", "BBANDS", "KC", "DONCHIAN", "HL", "HLA",
         "SUPERTREND", "STDEVTHRES", "COUNTER", "RSI", "MACD", "ROC", "STOCH", "TSI", "AROON", "ADX", "OBV", "VWAP",
         "AMORPH"]
CLASSES = {"SMA": I.SMA, "EMA": I.EMA, "RMA": I.RMA, "WMA": I.WMA, "VWMA": I.VWMA, "HMA": I.HMA, "TR": I.TR,
           "ATR": I.ATR, "STDEV": I.StandardDeviation, "BBANDS": I.BBANDS, "KC": I.KC, "DONCHIAN": I.Donchian,
           "HL": I.HighestLowest, "HLA": I.HighLowAverage, "SUPERTREND": I.Supertrend,
           "STDEVTHRES": I.StandardDeviationThreshold, "COUNTER": I.Counter, "RSI": I.RSI, "MACD": I.MACD,
           "ROC": I.ROC, "STOCH": I.STOCH, "TSI": I.TSI, "AROON": I.AROON, "ADX": I.ADX, "OBV": I.OBV,
           "VWAP": I.VWAP, "AMORPH": I.Amorph}
HAS_INPUT = {"SMA", "EMA", "RMA", "WMA", "HMA", "STDEV", "BBANDS", "KC", "STDEVTHRES", "RSI", "MACD", "ROC", "STOCH", "TSI"}
MA_KINDS = ["SMA", "EMA", "RMA", "WMA", "VWMA", "HMA"]
C05_KINDS = ["TR", "ATR", "STDEV", "BBANDS", "KC", "DONCHIAN", "HL", "HLA", "SUPERTREND", "STDEVTHRES", "COUNTER"]
C06_KINDS = ["RSI", "MACD", "ROC", "STOCH", "TSI", "AROON", "ADX", "OBV", "VWAP"]


def gen_spec(rng, kind: Optional[str] = None, thorough: bool = False, inputs=("close",), defaults_ok: bool = True) -> Dict:
    """A random parameter set (periods >= 2) for [kind]."""
    kind = kind or rng.choice(KINDS)
    hi = 40 if thorough else 12
    p = rng.randint(2, hi) if rng.random() < 0.85 else rng.choice([2, 3, 14, 20])
    spec: Dict[str, Any] = {"kind": kind, "kw": {}}
    kw = spec["kw"]
    if kind in ("SMA", "EMA", "RMA", "WMA", "HMA", "STDEV", "BBANDS", "ROC", "RSI"):
        kw["period"] = p
    elif kind in ("VWMA", "ATR", "DONCHIAN", "HL", "AROON"):
        kw["period"] = p
    elif kind == "KC":
        kw.update(period=p, multiplier=rng.choice([2.0, 1.5, 3.0]))
    elif kind == "SUPERTREND":
        kw.update(period=p, multiplier=rng.choice([3.0, 2.0, 1.5]))
    elif kind == "STDEVTHRES":
        kw.update(period=p, multiplier=rng.choice([2.0, 1.0, 0.5]))
    elif kind == "MACD":
        f = rng.randint(2, max(3, hi // 2))
        kw.update(fast_period=f, slow_period=f + rng.randint(1, max(2, hi // 2)), signal_period=rng.randint(2, 9))
        if rng.random() < 0.2:      # periods given the wrong way round (the constructor reorders them)
            kw["fast_period"], kw["slow_period"] = kw["slow_period"], kw["fast_period"]
    elif kind == "STOCH":
        kw.update(period=p, slow_period=rng.randint(2, 4), smoothing_k=rng.randint(2, 4))
    elif kind == "TSI":
        kw.update(period=p)
        if rng.random() < 0.5:
            kw["smooth_period"] = rng.randint(2, 7)
    elif kind == "ADX":
        kw.update(period=p)
        if rng.random() < 0.4:
            kw["period_signal"] = rng.randint(2, hi)
    elif kind == "VWAP":
        pass
    elif kind == "COUNTER":
        kw.update(input_value=rng.choice(["positive", "negative", "flag"]), count_value=rng.choice([True, True, True, False]))
    elif kind == "AMORPH":
        spec["analysis"] = A.gen_spec(rng, rng.choice(sorted(A.CROSS)) if rng.random() < 0.25 else None)
        # the engine cases carry the readings "src" and "flag", not the analysis cases' "a"/"b"
        ren = {"a": rng.choice(["close", "src", "high"]), "b": rng.choice(["open", "low", "src"])}
        for key in ("a", "b", "name"):
            if spec["analysis"].get(key) in ren:
                spec["analysis"][key] = ren[spec["analysis"][key]]
    if kind in HAS_INPUT:
        kw["input_value"] = rng.choice(list(inputs))
    if kind == "EMA" and rng.random() < 0.2:
        kw["smoothing"] = rng.choice([2.0, 3.0, 1.5])
    spec["round_value"] = rng.choice([4, 4, 4, 0, 2, 8])
    return spec


def build(spec: Dict, candles: list, cfg: Optional[Dict] = None):
    """Instantiate the indicator of [spec] over [candles] with manager settings [cfg]."""
    cfg = cfg or {}
    common = dict(candles=candles, round_value=spec.get("round_value", 4))
    if cfg.get("tf"):
        common["timeframe"] = gen.tf_arg(cfg["tf"], spec["kind"] + str(len(candles)))
        common["timeframe_fill"] = bool(cfg.get("fill"))
    if cfg.get("ha"):
        common["candlestick_type"] = "HA"
    if cfg.get("ha_obj") is not None:
        common["candlestick_type"] = cfg["ha_obj"]     # a CandlestickType object (may be shared)
    if cfg.get("lifespan") is not None:
        common["candles_lifespan"] = timedelta(seconds=cfg["lifespan"])
    if spec.get("name_suffix"):
        common["name_suffix"] = spec["name_suffix"]
    if spec.get("fullname"):
        common["fullname_override"] = spec["fullname"]
    if spec["kind"] == "AMORPH":
        a = spec["analysis"]
        return I.Amorph(analysis=A.PY[a["f"]], **A.kwargs_of(a), **common)
    return CLASSES[spec["kind"]](**spec["kw"], **common)


def kind_term(spec: Dict, ind) -> str:
    """The Coq [kind F] term for an instantiated indicator (parameters read back from the object)."""
    k = spec["kind"]
    z, s, n = C.zlit, C.strlit, C.numlit
    if k in ("SMA", "RMA", "WMA", "HMA", "STDEV", "BBANDS", "ROC", "RSI"):
        return f"(@K_{k} F {z(ind.period)} {s(ind.input_value)})"
    if k == "EMA":
        return f"(@K_EMA F {z(ind.period)} {s(ind.input_value)} {n(ind.smoothing)})"
    if k in ("VWMA", "ATR", "DONCHIAN", "HL", "AROON"):
        return f"(@K_{k} F {z(ind.period)})"
    if k in ("TR", "HLA", "OBV", "VWAP"):
        return f"(@K_{k} F)"
    if k == "KC":
        return f"(@K_KC F {z(ind.period)} {n(ind.multiplier)} {s(ind.input_value)})"
    if k == "SUPERTREND":
        return f"(@K_SUPERTREND F {z(ind.period)} {n(ind.multiplier)})"
    if k == "STDEVTHRES":
        return f"(@K_STDEVTHRES F {z(ind.period)} {n(ind.multiplier)} {s(ind.input_value)})"
    if k == "COUNTER":
        return f"(@K_COUNTER F {s(ind.input_value)} {C.vallit(ind.count_value)})"
    if k == "MACD":
        return f"(@K_MACD F {z(ind.fast_period)} {z(ind.slow_period)} {z(ind.signal_period)} {s(ind.input_value)})"
    if k == "STOCH":
        return f"(@K_STOCH F {z(ind.period)} {z(ind.slow_period)} {z(ind.smoothing_k)} {s(ind.input_value)})"
    if k == "TSI":
        return f"(@K_TSI F {z(ind.period)} {z(ind.smooth_period)} {s(ind.input_value)})"
    if k == "ADX":
        return f"(@K_ADX F {z(ind.period)} {z(ind.period_signal)})"
    if k == "AMORPH":
        return f"(@K_AMORPH F {A.afun_term(spec['analysis'])})"
    raise KeyError(k)


def pow_entries(spec: Dict, ind) -> List[Tuple[float, int, float]]:
    """libm pow values the model of RMA's seed needs: (1 - 1/period) ** k, k < period."""
    out = []
    periods = []
    if spec["kind"] == "RMA":
        periods = [ind.period]
    elif spec["kind"] == "ADX":
        periods = [ind.period, ind.period_signal]
    for p in periods:
        base = 1 - float(1.0 / p)
        for k in range(p + 1):
            out.append((base, k, base ** k))
    return out


# ---------------------------------------------------------------------------------------
# running an indicator through an operation sequence


def snap_readings(candles) -> List[Dict]:
    return [{"ts": gen.to_ts(c.timestamp) if c.timestamp is not None else 0,
             "inds": copy.deepcopy(c.indicators), "subs": copy.deepcopy(c.sub_indicators)} for c in candles]


def mk_rows(rows: List[Dict]):
    """Candles with optional pre-set readings (used as late-starting inputs)."""
    return A.mk(rows)


def apply_op(ind, op: Tuple):
    if op[0] == "append":
        ind.append(mk_rows(op[1]))
    elif op[0] == "calculate":
        ind.calculate()
    elif op[0] == "purge":
        ind.purge()
    elif op[0] == "recalculate":
        ind.recalculate()
    elif op[0] == "calc_index":
        ind.calculate_index(op[1], op[2])
    else:
        raise ValueError(op)


def run_indicator(spec: Dict, cfg: Dict, init: List[Dict], ops: List[Tuple], limit: float = 20.0):
    """(indicator or None, snapshots after construction and each op, exception name or None)"""
    snaps: List[List[Dict]] = []
    try:
        with core.time_limit(limit):
            ind = build(spec, mk_rows(init), cfg)
    except Exception as e:  # noqa
        return None, snaps, type(e).__name__
    snaps.append(snap_readings(ind.candles))
    for op in ops:
        try:
            with core.time_limit(limit):
                apply_op(ind, op)
        except Exception as e:  # noqa
            return ind, snaps, type(e).__name__
        snaps.append(snap_readings(ind.candles))
    return ind, snaps, None


# ---- Coq case terms ----
def rd_term(s: Dict) -> str:
    return "(%s, %s, %s)" % (C.zlit(s["ts"]), A.alist_term(s["inds"]), A.alist_term(s["subs"]))


def iop_term(op: Tuple) -> str:
    if op[0] == "append":
        return "(IAppend %s)" % C.listlit(op[1], A.candle_term)
    if op[0] == "calc_index":
        return "(ICalcIndex %s %s)" % (C.zlit(op[1]), C.optlit(op[2], C.zlit))
    return {"calculate": "ICalculate", "purge": "IPurge", "recalculate": "IRecalculate"}[op[0]]


def case_term(spec: Dict, cfg: Dict, init: List[Dict], ops: List[Tuple], rng=None, checkpoints: int = 3):
    """Run the implementation, build the Coq term.  Returns (term or None, snaps, err, pow entries)."""
    ind, snaps, err = run_indicator(spec, cfg, init, ops)
    if ind is None:
        return None, snaps, err, []
    code = EXN_CODES.get(err, 99) if err is not None else None
    keep = set(range(len(snaps)))
    if rng is not None and len(snaps) > checkpoints:
        keep = set(rng.sample(range(len(snaps) - 1), checkpoints - 1)) | {len(snaps) - 1}
    term = "(%s, %s, %s, %s, %s, %s, %s, %s)" % (
        mgrcorr.cfg_term(cfg), kind_term(spec, ind), C.strlit(ind.name), C.zlit(ind.round_value),
        C.listlit(init, A.candle_term), C.listlit(ops, iop_term),
        C.listlit(list(enumerate(snaps)),
                  lambda ist: ("(Some %s)" % C.listlit(ist[1], rd_term)) if ist[0] in keep else "None"),
        C.optlit(code, C.zlit))
    return term, snaps, err, pow_entries(spec, ind)


CASE_TYPE = "ind_case POW"
CHECKER = "check_ind POW"


def gen_rows(rng, n: int, regime: Optional[str] = None, step: int = 60, late: Optional[int] = None,
             ts_mode: str = "regular", base_prices=None) -> List[Dict]:
    """Candles with a boolean 'flag' reading and a numeric 'src' reading that starts late."""
    rows = (gen.gen_prices(rng, n, regime or rng.choice(gen.REGIMES), base_prices) if base_prices
            else gen.gen_prices(rng, n, regime or rng.choice(gen.REGIMES)))
    late = rng.choice([0, 0, 1, 2, 5]) if late is None else late
    for r, t in zip(rows, gen.gen_timestamps(rng, n, ts_mode, step)):
        r["ts"] = t
    # now and then whole-number prices given as Python ints
    if rng.random() < 0.08 and rows and min(r["low"] for r in rows) >= 2:
        for r in rows:
            for k in ("open", "high", "low", "close"):
                r[k] = int(r[k])
    for i, r in enumerate(rows):
        inds = {"flag": rng.random() < 0.6}
        if i >= late:
            inds["src"] = round(r["close"] * rng.uniform(0.9, 1.1), 2)
            # a dict-valued reading, addressed as "dd.x"
            inds["dd"] = {"x": round(r["close"] * rng.uniform(0.95, 1.05), 2), "y": None if rng.random() < 0.2 else float(i)}
        r["inds"] = inds
    return rows
