"""Shared machinery of the Hexital verification harness: configuration, seeded PRNG,
failure records, shrinking, known-findings matching, verdict protocol, evidence files."""
from __future__ import annotations

import hashlib
import json
import os
import random
import sys
import time
import traceback
from dataclasses import dataclass, field
from pathlib import Path
from typing import Any, Callable, Dict, List, Optional

VERIF = Path(__file__).resolve().parent.parent
REPO = Path(os.environ.get("HEXITAL_REPO", "/repo"))
BUILD = VERIF / "build"
REPLAYS = VERIF / "replays"
EVIDENCE = VERIF / "evidence"
CORPUS = VERIF / "corpus"
KNOWN = VERIF / "known_findings.json"

TRUSTED_BASE_COMMON = [
    "Coq 8.16.1 kernel incl. its bytecode VM (vm_compute) and the VM's PrimFloat/Uint63 primitives; native_compute is not used",
    "no Axiom/Parameter/Admitted in the development (grep enforced on every run); axioms per theorem as printed by Print Assumptions, listed under 'axioms'",
    "the correspondence harness (/verif/harness: generators, implementation driver, literal emitter, Run/Check.v comparators): agreement of model and code is established on the sampled inputs only",
    "CPython 3.12 interpreter and its float formatting (float.hex) used to transport values",
    "hand-written Gallina model of /repo/hexital (modelled, not verified): see DESIGN.md section 4 for what is outside the model",
]


def setup_import_path():
    """Import hexital from the current working tree of the repository, never from a copy."""
    p = str(REPO)
    if p in sys.path:
        sys.path.remove(p)
    sys.path.insert(0, p)
    os.environ.setdefault("TZ", "UTC")
    try:
        time.tzset()
    except Exception:
        pass


@dataclass
class Failure:
    """A concrete input on which the property fails on the implementation."""
    prop: str
    signature: Dict[str, Any]      # structural identity used for known-findings matching
    text: str                      # one line, human readable
    replay: Dict[str, Any]         # everything needed to re-run exactly this case
    size: int = 0                  # for picking the smallest representative


@dataclass
class Ctx:
    prop: str
    tier: str
    seed: int
    t0: float = field(default_factory=time.time)
    failures: List[Failure] = field(default_factory=list)
    corr_disagreements: List[Dict[str, Any]] = field(default_factory=list)
    proof_broken: List[str] = field(default_factory=list)
    coverage: Dict[str, Any] = field(default_factory=dict)
    assumptions: List[str] = field(default_factory=list)
    notes: List[str] = field(default_factory=list)
    counters: Dict[str, int] = field(default_factory=dict)
    samples: List[Any] = field(default_factory=list)
    distinct: set = field(default_factory=set)

    def rng(self, stream: str) -> random.Random:
        """All random choices derive from (seed, property, stream name)."""
        h = hashlib.sha256(f"{self.seed}/{self.prop}/{stream}".encode()).digest()
        return random.Random(int.from_bytes(h[:8], "big"))

    @property
    def thorough(self) -> bool:
        return self.tier == "thorough"

    def n(self, quick: int, thorough: int) -> int:
        scale = float(os.environ.get("VERIF_SCALE", "1"))
        return max(1, int((thorough if self.thorough else quick) * scale))

    def count(self, key: str, k: int = 1):
        self.counters[key] = self.counters.get(key, 0) + k

    def sample(self, s: Any, limit: int = 6):
        if len(self.samples) < limit:
            self.samples.append(s)

    def seen(self, key: Any, nontrivial: bool = True):
        """Record a distinct explored case (hash of its canonical JSON)."""
        if nontrivial:
            self.distinct.add(hashlib.sha1(json.dumps(key, sort_keys=True, default=str).encode()).hexdigest())

    def fail(self, signature: Dict[str, Any], text: str, replay: Dict[str, Any], size: int = 0):
        self.failures.append(Failure(self.prop, signature, text, replay, size))


# ----------------------------------------------------------------------------------------
# shrinking


def shrink_list(items: list, still_fails: Callable[[list], bool], max_steps: int = 400) -> list:
    """Delta-debugging style minimisation of a list keeping [still_fails] true."""
    cur = list(items)
    steps = 0
    chunk = max(1, len(cur) // 2)
    while chunk >= 1 and steps < max_steps:
        i = 0
        progressed = False
        while i < len(cur) and steps < max_steps:
            cand = cur[:i] + cur[i + chunk:]
            steps += 1
            ok = False
            try:
                ok = bool(cand) and still_fails(cand)
            except Exception:
                ok = False
            if ok:
                cur = cand
                progressed = True
            else:
                i += chunk
        if chunk == 1 and not progressed:
            break
        chunk = max(1, chunk // 2) if chunk > 1 else (1 if progressed else 0)
    return cur


# ----------------------------------------------------------------------------------------
# known findings


def load_known() -> List[Dict[str, Any]]:
    if not KNOWN.exists():
        return []
    return json.loads(KNOWN.read_text()).get("findings", [])


def sig_matches(pattern: Dict[str, Any], sig: Dict[str, Any]) -> bool:
    """Every key of the recorded signature must be present and equal in the observed one."""
    for k, v in pattern.items():
        if sig.get(k) != v:
            return False
    return True


def match_known(prop: str, sig: Dict[str, Any]) -> Optional[Dict[str, Any]]:
    for f in load_known():
        if f.get("status") != "known":
            continue
        if prop not in f.get("properties", [f.get("property")]):
            continue
        if sig_matches(f["signature"], sig):
            return f
    return None


# ----------------------------------------------------------------------------------------
# verdict + evidence


def write_replay(prop: str, payload: Dict[str, Any]) -> Path:
    REPLAYS.mkdir(exist_ok=True)
    blob = json.dumps(payload, sort_keys=True, default=str, indent=1)
    h = hashlib.sha1(blob.encode()).hexdigest()[:12]
    path = REPLAYS / f"{prop}-{h}.json"
    path.write_text(blob)
    return path


def finish(ctx: Ctx, proof: Dict[str, Any], level_text: str = "") -> int:
    """Print the verdict lines, write the evidence file, return the exit code."""
    exit_code = 0
    violations = 0
    printed_known = set()
    # group failures by signature, keep the smallest representative
    groups: Dict[str, Failure] = {}
    for f in ctx.failures:
        k = json.dumps(f.signature, sort_keys=True, default=str)
        if k not in groups or f.size < groups[k].size:
            groups[k] = f
    unknown: List[Failure] = []
    for k, f in sorted(groups.items()):
        kf = match_known(ctx.prop, f.signature)
        if kf is not None:
            if kf["id"] not in printed_known:
                printed_known.add(kf["id"])
                print(f"KNOWN-FINDING: property={ctx.prop} {kf['id']} {kf['text']}")
        else:
            unknown.append(f)
    for f in unknown:
        path = write_replay(ctx.prop, {"property": ctx.prop, "kind": "failing-input", "seed": ctx.seed,
                                       "signature": f.signature, "text": f.text, "replay": f.replay})
        print(f"VIOLATION property={ctx.prop} replay={path}")
        print(f"  {f.text}")
        violations += 1
        exit_code = 1
    if not unknown and (ctx.corr_disagreements or ctx.proof_broken):
        # the tie between model and code (or a proof obligation) no longer checks and the
        # search found no input on which the property itself fails
        payload = {"property": ctx.prop, "kind": "no-failing-input-found", "seed": ctx.seed,
                   "broken_theorems": ctx.proof_broken,
                   "correspondence_disagreements": ctx.corr_disagreements[:5],
                   "note": "the model/theorem no longer matches the code; the falsifier, re-seeded with the "
                           "disagreeing cases, found no input violating the property itself"}
        path = write_replay(ctx.prop, payload)
        print(f"VIOLATION property={ctx.prop} replay={path} no-failing-input-found")
        violations += 1
        exit_code = 1

    cov = dict(ctx.coverage)
    cov.update({
        "obligations": proof.get("obligations", 0),
        "discharged": proof.get("discharged", 0),
        "checker_cmd": proof.get("checker_cmd", ""),
        "trusted_base": TRUSTED_BASE_COMMON + proof.get("trusted_base_extra", []),
        "axioms": proof.get("axioms", {}),
        "theorems": proof.get("theorems", []),
        "evaluations": sum(v for k, v in ctx.counters.items() if k.startswith("eval")),
        "distinct_nontrivial": len(ctx.distinct),
        "rule": ctx.coverage.get("rule", "cases are generated from one seeded PRNG; a case counts as distinct/non-trivial by the SHA-1 of its canonical JSON and the per-property rule given in 'nontrivial_rule'"),
        "samples": ctx.samples if ctx.samples else [proof.get("theorems", ["(none)"])[:1]],
        "counters": ctx.counters,
        "known_findings_matched": sorted(printed_known),
        "notes": ctx.notes,
    })
    ev = {
        "property_id": ctx.prop,
        "tier": ctx.tier,
        "seed": ctx.seed,
        "level": "proof",
        "coverage": cov,
        "assumptions": ctx.assumptions,
        "wall_s": round(time.time() - ctx.t0, 2),
        "violations": violations,
    }
    EVIDENCE.mkdir(exist_ok=True)
    (EVIDENCE / f"{ctx.prop}.json").write_text(json.dumps(ev, indent=1, default=str))
    if exit_code == 0:
        print(f"OK property={ctx.prop} tier={ctx.tier} seed={ctx.seed} "
              f"obligations={cov['obligations']} discharged={cov['discharged']} "
              f"evaluations={cov['evaluations']} wall_s={ev['wall_s']}")
    return exit_code


def guarded(fn: Callable, *a, **kw):
    """Run fn, returning (value, None) or (None, exception)."""
    try:
        return fn(*a, **kw), None
    except Exception as e:  # noqa
        return None, e


def exc_name(e: BaseException) -> str:
    return type(e).__name__


class CaseTimeout(Exception):
    pass


class time_limit:
    """Abort a single case that runs away (e.g. a non-terminating loop in mutated code)."""

    def __init__(self, seconds: float):
        self.seconds = seconds

    def _raise(self, *a):
        raise CaseTimeout(f"case exceeded {self.seconds}s")

    def __enter__(self):
        import signal
        self.old = signal.signal(signal.SIGALRM, self._raise)
        signal.setitimer(signal.ITIMER_REAL, self.seconds)

    def __exit__(self, *a):
        import signal
        signal.setitimer(signal.ITIMER_REAL, 0)
        signal.signal(signal.SIGALRM, self.old)
        return False
