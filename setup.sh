#!/bin/sh
# Build the Coq development from files on disk only (full .vo build, never -vos).
set -e
cd "$(dirname "$0")/coq"
coq_makefile -f _CoqProject $(find theories -name '*.v' | sort) -o Makefile > /dev/null
timeout 3000 make -j16
mkdir -p ../build ../replays ../evidence
